"""C15 -- metrics collection is transparent, exact and session-isolated.

R1 termination-insensitive non-interference of metrics code (taint from the
collecting state never reaches yields / returns / tree writes / control
flow of the kernel code); R2 every asserting Metrics call is dominated by a
collecting guard; R3 counter placement table of the payload operators;
R4 session reset completeness of beginCollect; R5 metrics code is confined;
R6 one tick per loop body in the ticking generators.
"""

import ast

from ..model import text, AnalysisError, construct
from ..cfg import cfg_of, guards, atomic_guards, enclosing_stmt, is_within, \
    parent_block, block_always_leaves, EXIT
from ..effects import is_tree_loc, STATS_LOCS
from .. import pat

EXPLANATION = (
    "Taint analysis per function of core/fiber.py, core/iterators.py and "
    "core/payload.py: values derived from Metrics.* calls (and from "
    "_prep_metrics_inc) and every local assigned under a condition on them "
    "are tainted; tainted names may only feed Metrics.* calls, conditions "
    "of metrics-only blocks and other tainted locals, and a block guarded "
    "by a tainted condition may only contain metrics calls, assignments to "
    "locals, asserts, saved-position calls and read-only iteration -- never "
    "a yield, return, break/continue, raise or tree write.  Together with "
    "R5 (metrics.py touches only Metrics.* and files) this is a sufficient "
    "condition for 'results with collection on = results with it off' "
    "(termination-insensitive: asserts of the metrics API may abort a "
    "collecting run).  R2 derives the asserting Metrics methods from "
    "metrics.py and requires a collecting guard in front of each call; R3 "
    "holds the payload operators against the counter table; R4 compares the "
    "class attributes any Metrics method mutates with the fresh literals "
    "beginCollect assigns; R6 checks register / one incIter per yield / "
    "endIter and one default-type addUse (iter-trace row) in the block of the "
    "yield in the ticking generators.  Equality of the numbers with an "
    "executed kernel is not decided.")
RULE = ("one obligation per function containing Metrics calls (taint), per "
        "Metrics call site (guard), per payload slot (counter table), per "
        "mutable Metrics attribute (reset), per ticking generator")

MODULES = ("core/fiber.py", "core/iterators.py", "core/payload.py",
           "core/coord_payload.py", "core/tensor.py", "core/rank.py")
HELPERS = {"_prep_metrics_inc"}
METRICS_ONLY_FUNCS = {"core/fiber.py:Fiber.trace"}
STATS_CALLS = {"setSavedPos", "getSavedPos", "clearStats", "getSavedPosStats",
               "_clearSavedPosStats"}


def run(ctx):
    ctx.guard(r1_taint)
    ctx.guard(r2_guards)
    ctx.guard(r3_counters)
    ctx.guard(r4_reset)
    ctx.guard(r5_confined)
    ctx.guard(r6_ticks)
    ctx.guard(r7_collecting_preconditions)
    ctx.guard(r8_queries_do_not_tick)
    ctx.assume("asserts of the metrics API may abort a collecting run "
               "(termination-insensitive non-interference)")
    ctx.assume("Fiber._saved_* statistics do not influence results (C03/C07 "
               "clause 'a valid shortcut never changes answers', not decided)")


def _walk(stmts):
    from ..cfg import walk_own
    return walk_own(stmts)


# -- R8: asking a fiber a question is not a loop of the kernel ---------------------

TICKING_ITERS = {"__iter__", "iterOccupancy", "iterShape", "iterShapeRef", "iterActive",
                 "iterActiveShape", "iterActiveShapeRef", "iterRange", "iterRangeShape",
                 "iterRangeShapeRef"}
QUERIES = ("__len__", "__bool__", "__contains__", "isEmpty", "countValues", "nonEmpty",
           "maxCoord", "minCoord", "getShape", "estimateShape", "getCoords",
           "getPayloads", "__repr__", "__str__", "__format__", "getActive")


def r8_queries_do_not_tick(ctx):
    """The default traversal of a fiber (`for x in f`, `f.__iter__()`,
    `iterOccupancy()` ...) ticks: while metrics are collected it registers the
    rank as a level of the loop nest, advances its iteration counter and
    writes `iter` rows.  Methods a kernel calls to *ask* something (len(),
    truth, emptiness, counts, bounds, shapes, printing) must therefore walk
    the raw lists or pass tick=False; otherwise `if len(lazy) == 0: continue`
    is recorded as loop iterations of that rank."""
    from ..sites import iter_kind, RAW
    n = 0
    for cname in ("Fiber", "Tensor"):
        ci = ctx.prog.cls(cname)
        for q in QUERIES:
            f = ci.methods.get(q)
            if f is None or f.node is None:
                continue
            ctx.consulted.add(f.module.rel)
            sites = []
            for nd in f.own_nodes():
                its = []
                if isinstance(nd, (ast.For, ast.comprehension)):
                    its.append(nd.iter)
                if isinstance(nd, ast.Call) and isinstance(nd.func, ast.Name) and \
                        nd.func.id in ("iter", "list", "tuple", "sum", "any", "all",
                                       "sorted", "next", "enumerate", "zip", "set"):
                    its += [a for a in nd.args if not isinstance(a, ast.Starred)]
                for it in its:
                    e = it
                    while isinstance(e, ast.Call) and isinstance(e.func, ast.Name) and \
                            e.func.id in ("enumerate", "iter", "reversed", "zip") and e.args:
                        e = e.args[0]
                    if isinstance(e, (ast.GeneratorExp, ast.ListComp, ast.SetComp)):
                        continue        # its own generators are visited as comprehensions
                    sites.append((nd, e))
            for nd, e in sites:
                ticking = None
                if isinstance(e, ast.Call) and isinstance(e.func, ast.Attribute) and \
                        e.func.attr in TICKING_ITERS:
                    tk = pat.kwarg(e, "tick", None)
                    if tk is None and e.func.attr in ("iterShape", "iterShapeRef", "iterOccupancy",
                                                     "iterActive", "iterActiveShape",
                                                     "iterActiveShapeRef", "__iter__") and e.args:
                        tk = e.args[0]
                    ticking = not (isinstance(tk, ast.Constant) and tk.value is False)
                else:
                    try:
                        kind, _b = iter_kind(ctx, f, e)
                    except Exception:
                        kind = None
                    if kind is None or kind is RAW:
                        continue
                    ticking = True
                n += 1
                if ticking:
                    ctx.bad("C15.R8", f, e, "%s.%s walks `%s` with the ticking "
                            "default traversal: while metrics are collected, "
                            "asking this question registers the rank and counts "
                            "loop iterations the kernel never executed (a kernel "
                            "that only tests `len(f)` / emptiness gets a doubled "
                            "iteration count)" % (cname, q, text(e)[:50]))
                else:
                    ctx.ok("C15.R8", f, e, "query walks the fiber with tick=False")
    ctx.floor("C15.R8", n, 1, "fiber traversals inside query methods")


# -- R7: what a function demands only while collecting, its callers in the
# library supply -------------------------------------------------------------

def r7_collecting_preconditions(ctx):
    """Fiber.project builds an iterator whose constructor asserts, only
    while metrics are collected, that a destination rank id was given
    (`assert not is_collecting or self.rank is not None`, rank = the
    rank_id parameter).  A call inside the library that omits rank_id works
    with collection off and aborts with it on: the same kernel gives a
    result in one mode and an AssertionError in the other.  Every call of
    Fiber.project from library code must therefore pass rank_id."""
    f = ctx.method("Fiber", "project")
    prm = None
    for ci in f.inner_classes.values():
        init = ci.methods.get("__init__")
        if init is None:
            continue
        for a in init.own_nodes():
            if not isinstance(a, ast.Assert):
                continue
            t = text(a.test).replace(" ", "")
            m_ = [n for n in ast.walk(a.test) if isinstance(n, ast.Attribute)
                  and text(n.value) == init.params[0]]
            if ("is_collecting" in t or "Metrics.isCollecting()" in t) and m_:
                attr = m_[0].attr
                src = ci.class_attrs.get(attr)
                if isinstance(src, ast.Name) and src.id in f.all_param_names():
                    prm = src.id
    if prm is None:
        ctx.info("C15.R7: Fiber.project no longer has a collecting-only "
                 "precondition on a parameter; nothing to supply")
        return
    idx = f.params.index(prm) - 1 if prm in f.params else None
    n = 0
    for caller, call, tg in ctx.eff.call_sites.get(f, []):
        if caller.module.rel.startswith(("graphics/", "notebook/")):
            continue
        n += 1
        v = pat.kwarg(call, prm, idx)
        if v is not None and not (isinstance(v, ast.Constant) and v.value is None):
            ctx.ok("C15.R7", caller, call, "passes %s to project" % prm,
                   text_="project call supplies %s" % prm)
        else:
            ctx.bad("C15.R7", caller, call,
                    "%s calls Fiber.project without `%s`, which project's "
                    "iterator asserts to be given while metrics are collected: "
                    "the call works with collection off and raises "
                    "AssertionError with it on (e.g. `Fiber([1,3],[7,8]) & "
                    "Fiber([(1,2),(3,4)],[5,6])` between beginCollect and "
                    "endCollect)" % (caller.key.split(":")[-1], prm))
    ctx.floor("C15.R7", n, 2, "library calls of Fiber.project")


def _is_metrics_call(n):
    return isinstance(n, ast.Call) and text(n.func).startswith("Metrics.")


def _names(expr):
    return {n.id for n in ast.walk(expr) if isinstance(n, ast.Name)}


def _sans_metrics(stmts):
    """The statements with what only talks to Metrics taken out: a
    structural digest to compare two copies of one piece of code that differ
    in their bookkeeping only."""
    out = []
    for st in stmts:
        if isinstance(st, ast.Expr) and _is_metrics_call(st.value):
            continue
        if isinstance(st, ast.Pass):
            continue
        if isinstance(st, ast.If):
            b, o = _sans_metrics(st.body), _sans_metrics(st.orelse)
            pure = all(isinstance(x, (ast.Name, ast.BoolOp, ast.UnaryOp, ast.And, ast.Or,
                                      ast.Not, ast.Load)) for x in ast.walk(st.test))
            if not b and not o and pure:
                continue
            out.append(("if", text(st.test), tuple(b), tuple(o)))
        elif isinstance(st, (ast.For, ast.While)):
            head = (text(st.target), text(st.iter)) if isinstance(st, ast.For) \
                else (text(st.test),)
            out.append(("loop",) + head + (tuple(_sans_metrics(st.body)),
                                            tuple(_sans_metrics(st.orelse))))
        else:
            out.append(text(st))
    return out


def _neutral_if(f, node):
    """`if <metrics test>: <copy A>; return` followed by <copy B> (or an
    if/else of two copies) where A and B are the same statements once the
    Metrics calls are taken out: whichever way the test goes, the kernel sees
    the same thing done."""
    if hasattr(node, "_neutral"):
        return node._neutral
    res = False
    pb = parent_block(node)
    if pb is not None:
        blk, idx, parent, field = pb
        tail = blk[idx + 1:]
        top = parent is f.node and field == "body"

        def cont(branch):
            if branch and isinstance(branch[-1], ast.Return):
                if not top:
                    return None
                br = list(branch)
                if br[-1].value is None:
                    br.pop()
                return br
            if block_always_leaves(branch):
                return None
            rest = list(tail)
            if top and rest and isinstance(rest[-1], ast.Return) and rest[-1].value is None:
                rest.pop()
            return list(branch) + rest
        a, b = cont(node.body), cont(node.orelse)
        if a is not None and b is not None and (
                any(isinstance(x, ast.stmt) and not isinstance(x, ast.Pass) for x in node.body)):
            sa_, sb_ = _sans_metrics(a), _sans_metrics(b)
            res = sa_ == sb_ and bool(sa_)
    node._neutral = res
    return res


class Taint:
    def __init__(self, ctx, f):
        self.ctx = ctx
        self.f = f
        self.t = set()
        self._fix()

    def expr_tainted(self, e):
        if e is None:
            return False
        if _is_metrics_call(e):
            return True
        if isinstance(e, ast.Call):
            if text(e.func) in HELPERS:
                return True
            if self.expr_tainted(e.func):
                return True
            skip = _metrics_only_args(self.ctx, self.f, e)
            for a in list(e.args) + [k.value for k in e.keywords]:
                if id(a) in skip:
                    continue
                if self.expr_tainted(a):
                    return True
            return False
        if isinstance(e, ast.Name):
            return e.id in self.t
        if isinstance(e, ast.Lambda):
            return False
        for ch in ast.iter_child_nodes(e):
            if isinstance(ch, ast.expr) and self.expr_tainted(ch):
                return True
            if isinstance(ch, ast.comprehension):
                if self.expr_tainted(ch.iter) or any(self.expr_tainted(i) for i in ch.ifs):
                    return True
            if isinstance(ch, ast.keyword) and self.expr_tainted(ch.value):
                return True
        return False

    def guard_tainted(self, st):
        for t, pol in guards(st):
            if not self.expr_tainted(t):
                continue
            owner = getattr(t, "_parent", None)
            if isinstance(owner, ast.If) and owner.test is t and _neutral_if(self.f, owner):
                continue        # both ways of the test do the same for the kernel
            return True
        return False

    def _targets(self, t, out):
        if isinstance(t, ast.Name):
            out.add(t.id)
        elif isinstance(t, (ast.Tuple, ast.List)):
            for e in t.elts:
                self._targets(e, out)
        elif isinstance(t, ast.Starred):
            self._targets(t.value, out)
        elif isinstance(t, ast.Subscript) and isinstance(t.value, ast.Name):
            out.add(t.value.id)

    def _len_of(self, e, depth=0):
        """Canonical text of the length of a list-valued expression when the
        shape of the expression fixes it, else None: `[x] * n`, a
        comprehension without filter, `X[k:]`, `list(X)`, `range(n)`, a
        variable all of whose definitions have one such length."""
        if depth > 4:
            return None
        if isinstance(e, ast.BinOp) and isinstance(e.op, ast.Mult):
            for lst, n_ in ((e.left, e.right), (e.right, e.left)):
                if isinstance(lst, (ast.List, ast.Tuple)) and len(lst.elts) == 1 and \
                        not isinstance(lst.elts[0], ast.Starred):
                    return text(n_).replace(" ", "")
            return None
        if isinstance(e, (ast.ListComp, ast.GeneratorExp)):
            if len(e.generators) == 1 and not e.generators[0].ifs:
                return self._len_of(e.generators[0].iter, depth + 1)
            return None
        if isinstance(e, ast.Call) and isinstance(e.func, ast.Name) and not e.keywords:
            if e.func.id == "range" and len(e.args) == 1:
                return text(e.args[0]).replace(" ", "")
            if e.func.id in ("list", "tuple", "reversed", "enumerate") and len(e.args) == 1:
                return self._len_of(e.args[0], depth + 1)
            return None
        if isinstance(e, ast.Subscript) and isinstance(e.slice, ast.Slice):
            sl = e.slice
            if sl.upper is None and sl.step is None and \
                    isinstance(sl.lower, ast.Constant) and \
                    isinstance(sl.lower.value, int) and sl.lower.value >= 0:
                base = self._len_of(e.value, depth + 1)
                if base is None:
                    return None
                # (exact only when the list is at least that long; an
                # equally sliced partner is then equally long or both empty)
                return base if sl.lower.value == 0 else "%s-%d" % (base, sl.lower.value)
            return None
        if isinstance(e, ast.Name):
            lens = set()
            for n in self.f.own_nodes():
                if isinstance(n, ast.Assign):
                    for t in n.targets:
                        if isinstance(t, ast.Name) and t.id == e.id:
                            lens.add(self._len_of(n.value, depth + 1))
                        elif any(isinstance(x, ast.Name) and x.id == e.id for x in ast.walk(t)):
                            lens.add(None)
                elif isinstance(n, (ast.AugAssign, ast.For)) and any(
                        isinstance(x, ast.Name) and x.id == e.id for x in ast.walk(n.target)):
                    lens.add(None)
                elif isinstance(n, ast.Call) and isinstance(n.func, ast.Attribute) and \
                        isinstance(n.func.value, ast.Name) and n.func.value.id == e.id and \
                        n.func.attr in ("append", "pop", "insert", "extend", "clear", "remove"):
                    lens.add(None)
            if e.id in self.f.params or len(lens) != 1:
                return None
            return lens.pop()
        if isinstance(e, ast.Attribute):
            return "len(%s)" % text(e).replace(" ", "")
        return None

    def _for_targets(self, it, target, new):
        """Targets of `for target in it` that take a metrics-dependent value.
        `enumerate` and `zip` are read element-wise when the number of rounds
        does not depend on metrics state: all zipped sequences have one
        length, by the shape of their definitions, and that length is built
        from untainted names."""
        if isinstance(it, ast.Call) and isinstance(it.func, ast.Name) and not it.keywords:
            if it.func.id == "enumerate" and len(it.args) == 1 and \
                    isinstance(target, (ast.Tuple, ast.List)) and len(target.elts) == 2:
                return self._for_targets(it.args[0], target.elts[1], new)
            if it.func.id == "zip" and isinstance(target, (ast.Tuple, ast.List)) and \
                    len(target.elts) == len(it.args) and it.args and \
                    not any(isinstance(a, ast.Starred) for a in it.args):
                lens = {self._len_of(a) for a in it.args}
                if len(lens) == 1 and None not in lens:
                    ln = lens.pop()
                    try:
                        names = _names(ast.parse(ln, mode="eval"))
                    except SyntaxError:
                        names = None
                    if names is not None and not (names & self.t):
                        for a, t in zip(it.args, target.elts):
                            if self.expr_tainted(a):
                                self._targets(t, new)
                        return
        if self.expr_tainted(it):
            self._targets(target, new)

    def _same_const_in_else(self, st, name, value):
        """`name = CONST` under a tainted `if` does not taint when the
        alternative branch assigns the same constant."""
        if not isinstance(value, ast.Constant):
            return False
        pb = parent_block(st)
        if pb is None or not isinstance(pb[2], ast.If) or \
                pb[3] not in ("body", "orelse"):
            return False
        node = pb[2]
        if not self.expr_tainted(node.test):
            return False
        other = node.orelse if pb[3] == "body" else node.body
        for alt in other:
            if isinstance(alt, ast.Assign) and len(alt.targets) == 1 and \
                    isinstance(alt.targets[0], ast.Name) and \
                    alt.targets[0].id == name and \
                    isinstance(alt.value, ast.Constant) and \
                    alt.value.value == value.value:
                # and the outer guards of the `if` itself are not tainted
                if not self.guard_tainted(node):
                    return True
        return False

    def _fix(self):
        f = self.f
        changed = True
        while changed:
            changed = False
            for n in f.own_nodes():
                new = set()
                if isinstance(n, (ast.Assign, ast.AugAssign, ast.AnnAssign)):
                    tg = n.targets if isinstance(n, ast.Assign) else [n.target]
                    st = n
                    if self.expr_tainted(n.value) or self.guard_tainted(st):
                        for t in tg:
                            if isinstance(t, (ast.Name, ast.Tuple, ast.List,
                                              ast.Subscript)):
                                tmp = set()
                                self._targets(t, tmp)
                                for nm in tmp:
                                    if not self.expr_tainted(n.value) and \
                                            isinstance(t, ast.Name) and \
                                            self._same_const_in_else(n, nm, n.value):
                                        continue
                                    new.add(nm)
                elif isinstance(n, ast.For):
                    if self.guard_tainted(n):
                        self._targets(n.target, new)
                    elif self.expr_tainted(n.iter):
                        self._for_targets(n.iter, n.target, new)
                elif isinstance(n, ast.Call) and isinstance(n.func, ast.Attribute) \
                        and isinstance(n.func.value, ast.Name) and \
                        n.func.attr in ("append", "pop", "insert", "extend", "clear"):
                    st = enclosing_stmt(n)
                    if st is not None and (self.guard_tainted(st) or
                                           any(self.expr_tainted(a) for a in n.args)):
                        new.add(n.func.value.id)
                if new - self.t:
                    self.t |= new
                    changed = True


_MOP = {}


def metrics_only_params(ctx, callee, depth=0):
    """Parameters of `callee` whose every use is an argument of a Metrics.*
    call, a test of a metrics-only block, or an argument passed on to a
    metrics-only parameter of another function."""
    if callee in _MOP:
        return _MOP[callee]
    _MOP[callee] = set()
    out = set()
    for pn in callee.all_param_names():
        if pn == (callee.params[0] if callee.params and callee.self_type else None):
            continue
        uses = [n for n in callee.own_nodes() if isinstance(n, ast.Name)
                and n.id == pn and isinstance(n.ctx, ast.Load)]
        if not uses or ctx.ty.assignments(callee).get(pn):
            continue
        ok = True
        for u in uses:
            anc = list(_anc(u))
            if any(_is_metrics_call(a) for a in anc):
                continue
            # inside the test of an `if` whose body is only Metrics calls
            st = enclosing_stmt(u)
            if isinstance(st, ast.If) and any(a is st.test or a is st for a in [st.test] + anc) \
                    and _within(u, st.test) and all(
                        isinstance(b, ast.Expr) and _is_metrics_call(b.value)
                        for b in st.body) and not st.orelse:
                continue
            # passed on to another metrics-only parameter
            call = next((a for a in anc if isinstance(a, ast.Call)), None)
            if call is not None and depth < 4:
                tg = ctx.ty.resolve(callee, call)
                if tg.funcs and all(_arg_param(ctx, callee, call, c2, u) in
                                    (metrics_only_params(ctx, c2, depth + 1) | ({pn} if c2 is callee else set()))
                                    for c2 in tg.funcs):
                    continue
            ok = False
            break
        if ok:
            out.add(pn)
    _MOP[callee] = out
    return out


def _within(node, container):
    return node is container or any(a is container for a in _anc(node))


def _arg_param(ctx, f, call, callee, use):
    """Name of the callee parameter that receives the argument containing
    `use` (None if it is not a plain argument)."""
    from ..effects import FuncCtx
    tg = ctx.ty.resolve(f, call)
    amap = FuncCtx(ctx.eff, f).argmap(call, callee, tg)
    for p, lst in amap.items():
        for a in lst:
            if a is use:
                return p
    return None


def _metrics_only_args(ctx, f, call):
    """ids of argument expressions of `call` that only feed metrics code."""
    tg = ctx.ty.resolve(f, call)
    if not tg.funcs or tg.kind not in ("resolved", "byname"):
        return set()
    from ..effects import FuncCtx
    skip = None
    for callee in tg.funcs:
        mop = metrics_only_params(ctx, callee)
        amap = FuncCtx(ctx.eff, f).argmap(call, callee, tg)
        s = set()
        for p, lst in amap.items():
            if p in mop:
                for a in lst:
                    if a is not None and not isinstance(a, tuple):
                        s.add(id(a))
        skip = s if skip is None else (skip & s)
    return skip or set()


def _tree_writing_call(ctx, f, call):
    """Does the callee (transitively) write tree/rank state?"""
    tg = ctx.ty.resolve(f, call)
    for callee in tg.funcs:
        for loc, r, cond, w in ctx.eff.writes(callee, tree_only=True):
            if loc not in STATS_LOCS and r[0] == "p":
                return "%s writes %s" % (callee.key, loc)
    return None


def _metrics_only(ctx, f, taint, st):
    """None if statement `st` is allowed under a tainted guard, else why."""
    if isinstance(st, (ast.Pass, ast.Assert)):
        return None
    if isinstance(st, ast.Expr):
        v = st.value
        if isinstance(v, ast.Constant):
            return None
        if isinstance(v, ast.Call):
            if _is_metrics_call(v):
                return None
            if isinstance(v.func, ast.Attribute) and v.func.attr in STATS_CALLS:
                return None
            why = _tree_writing_call(ctx, f, v)
            if why:
                return "call `%s` (%s)" % (text(v)[:50], why)
            return None
        if isinstance(v, (ast.Yield, ast.YieldFrom)):
            return "a yield"
        return None
    if isinstance(st, (ast.Assign, ast.AugAssign, ast.AnnAssign)):
        tg = st.targets if isinstance(st, ast.Assign) else [st.target]
        for t in tg:
            for el in (t.elts if isinstance(t, (ast.Tuple, ast.List)) else [t]):
                b = el
                while isinstance(b, (ast.Subscript, ast.Starred)):
                    b = b.value
                if isinstance(b, ast.Attribute):
                    return "a store to attribute `%s`" % text(el)
        if any(isinstance(n, (ast.Yield, ast.YieldFrom)) for n in ast.walk(st)):
            return "a yield"
        for c in ast.walk(st):
            if isinstance(c, ast.Call) and not _is_metrics_call(c):
                why = _tree_writing_call(ctx, f, c)
                if why:
                    return "call `%s` (%s)" % (text(c)[:50], why)
        return None
    if isinstance(st, ast.If):
        for b in st.body + st.orelse:
            w = _metrics_only(ctx, f, taint, b)
            if w:
                return w
        return None
    if isinstance(st, (ast.For, ast.While)):
        it = st.iter if isinstance(st, ast.For) else st.test
        for c in ast.walk(it):
            if isinstance(c, ast.Call) and not _is_metrics_call(c):
                why = _tree_writing_call(ctx, f, c)
                if why:
                    return "iteration `%s` (%s)" % (text(it)[:50], why)
        for b in st.body + st.orelse:
            w = _metrics_only(ctx, f, taint, b)
            if w:
                return w
        return None
    if isinstance(st, ast.Return):
        return "a return"
    if isinstance(st, (ast.Break, ast.Continue)):
        return "a %s" % type(st).__name__.lower()
    if isinstance(st, ast.Raise):
        return "a raise"
    if isinstance(st, (ast.FunctionDef, ast.ClassDef)):
        return None
    return "statement `%s`" % construct(st)


def r1_taint(ctx):
    nsites = 0
    for f in ctx.prog.funcs.values():
        if f.module.rel not in MODULES:
            continue
        mcalls = [n for n in f.own_nodes() if _is_metrics_call(n) or
                  (isinstance(n, ast.Call) and text(n.func) in HELPERS)]
        if not mcalls:
            continue
        nsites += len([c for c in mcalls if _is_metrics_call(c)])
        ctx.consulted.add(f.module.rel)
        if f.name in HELPERS:
            ctx.ok("C15.R1", f, f.node, "metrics helper: its result is a "
                   "taint source at every call site", text_=f.name)
            continue
        if f.key in METRICS_ONLY_FUNCS:
            ws = [(loc, r) for loc, r, c, w in ctx.eff.writes(f, tree_only=True)
                  if loc not in STATS_LOCS and r[0] == "p"]
            if ws:
                ctx.bad("C15.R1", f, f.node, "tracing helper %s writes tree "
                        "state %s" % (f.name, ws[0][0]), text_=f.name)
            else:
                ctx.ok("C15.R1", f, f.node, "tracing helper has no tree write "
                       "effect", text_=f.name)
            continue
        ta = Taint(ctx, f)
        bad = 0
        for st in _top_level_statements(f):
            pass
        # (a) every block under a tainted guard is metrics-only
        for n in f.own_nodes():
            if isinstance(n, ast.If) and ta.expr_tainted(n.test):
                if _neutral_if(f, n):
                    ctx.ok("C15.R1", f, n, "both ways of the metrics-dependent test "
                           "run the same statements apart from Metrics calls")
                    continue
                for b in n.body:
                    why = _metrics_only(ctx, f, ta, b)
                    if why:
                        bad += 1
                        ctx.bad("C15.R1", f, b,
                                "under the metrics-dependent condition `%s` the "
                                "code performs %s: the kernel's result (or its "
                                "control flow) differs between collection on "
                                "and off" % (text(n.test)[:60], why))
                # the else branch of a tainted test is equally dependent
                for b in n.orelse:
                    if isinstance(b, ast.If):
                        continue    # elif: handled as its own If
                    why = _metrics_only(ctx, f, ta, b)
                    if why and not _same_in_body(n, b):
                        bad += 1
                        ctx.bad("C15.R1", f, b,
                                "in the else-branch of the metrics-dependent "
                                "condition `%s` the code performs %s"
                                % (text(n.test)[:60], why))
            elif isinstance(n, (ast.While,)) and ta.expr_tainted(n.test):
                bad += 1
                ctx.bad("C15.R1", f, n, "loop condition depends on metrics state")
        # (b) tainted names never feed results, tree writes or kernel control
        for n in f.own_nodes():
            if isinstance(n, (ast.Yield, ast.YieldFrom, ast.Return)):
                if n.value is not None and ta.expr_tainted(n.value):
                    bad += 1
                    ctx.bad("C15.R1", f, n, "the value `%s` handed to the "
                            "kernel depends on metrics state (%s)"
                            % (text(n.value)[:60],
                               sorted(_names(n.value) & ta.t) or "Metrics call"))
            elif isinstance(n, ast.Call) and not _is_metrics_call(n) and \
                    text(n.func) not in HELPERS:
                st = enclosing_stmt(n)
                if st is not None and ta.guard_tainted(st):
                    continue        # inside a metrics-only block (checked above)
                inside_metrics = any(_is_metrics_call(a) for a in _anc(n))
                if inside_metrics:
                    continue
                targs = [a for a in list(n.args) + [k.value for k in n.keywords]
                         if ta.expr_tainted(a)]
                if targs:
                    why = _tree_writing_call(ctx, f, n)
                    if why:
                        bad += 1
                        ctx.bad("C15.R1", f, n, "a metrics-dependent value (`%s`) "
                                "is passed to `%s`, which writes the tree (%s)"
                                % (text(targs[0])[:40], text(n.func), why))
            elif isinstance(n, ast.Subscript) and isinstance(n.value, ast.Attribute) \
                    and n.value.attr in ("coords", "payloads"):
                if ta.expr_tainted(n.slice):
                    st = enclosing_stmt(n)
                    if not (st is not None and ta.guard_tainted(st)) and \
                            not any(_is_metrics_call(a) for a in _anc(n)):
                        bad += 1
                        ctx.bad("C15.R1", f, n, "a metrics-only counter (`%s`) "
                                "indexes the fiber's lists outside metrics code"
                                % text(n.slice))
            elif isinstance(n, ast.If) and not ta.expr_tainted(n.test):
                pass
        if not bad:
            ctx.ok("C15.R1", f, f.node, "metrics-dependent values (%s) reach "
                   "only Metrics calls and metrics-only locals"
                   % (sorted(ta.t)[:8]), text_="%s taint" % f.key.split(":")[-1])
    ctx.floor("C15.R1", nsites, 80, "Metrics.* call sites in core/")


def _same_in_body(ifnode, stmt):
    return False


def _anc(n):
    from ..cfg import ancestors
    return ancestors(n)


def _top_level_statements(f):
    return []


# ---------------------------------------------------------------------------
def _asserting_methods(ctx):
    M = ctx.prog.cls("Metrics")
    out = set()
    for name, m in M.methods.items():
        for n in m.own_nodes():
            if isinstance(n, ast.Assert) and "cls.collecting" in text(n.test):
                out.add(name)
    return out


def _collecting_vars(ctx, f):
    """Local names that are true only while collecting."""
    facts = ctx.ty.assignments(f)
    good = set()
    changed = True

    def is_guard_expr(e):
        if isinstance(e, ast.Call) and text(e.func) == "Metrics.isCollecting":
            return True
        if isinstance(e, ast.Name) and e.id in good:
            return True
        if isinstance(e, ast.BoolOp) and isinstance(e.op, ast.And):
            return any(is_guard_expr(v) for v in e.values)
        if isinstance(e, ast.BoolOp) and isinstance(e.op, ast.Or):
            return all(is_guard_expr(v) for v in e.values)
        return False

    def under_guard(st):
        for t, pol in atomic_guards(st):
            if pol and is_guard_expr(t):
                return True
        return False
    while changed:
        changed = False
        for name, lst in facts.items():
            if name in good:
                continue
            ok = bool(lst)
            for fa in lst:
                v = fa.value
                if fa.kind != "expr":
                    ok = False
                    break
                if isinstance(v, ast.Constant) and v.value is False:
                    continue
                if not fa.path and is_guard_expr(v):
                    continue
                if fa.path == (0,) and isinstance(v, ast.Call) and \
                        text(v.func) in HELPERS:
                    continue
                if fa.stmt is not None and under_guard(fa.stmt):
                    continue
                ok = False
                break
            if ok:
                good.add(name)
                changed = True
    return good, is_guard_expr


def r2_guards(ctx):
    asserting = _asserting_methods(ctx)
    ctx.require(len(asserting) >= 8, "C15.R2: only %d asserting Metrics methods "
                "found in metrics.py" % len(asserting))
    n = 0
    for f in ctx.prog.funcs.values():
        if f.module.rel == "core/metrics.py" or f.module.rel.startswith(
                ("codec/", "notebook/", "graphics/")):
            continue
        calls = [c for c in f.own_nodes() if _is_metrics_call(c)]
        if not calls:
            continue
        good, is_guard_expr = _collecting_vars(ctx, f)
        pre_assert = [a for a in f.body if isinstance(a, ast.Assert)
                      and "Metrics.isCollecting()" in text(a.test)]
        for c in calls:
            name = text(c.func)[8:]
            deref = name == "getIter" and isinstance(getattr(c, "_parent", None),
                                                     ast.Attribute)
            if name not in asserting and not deref:
                continue
            n += 1
            st = enclosing_stmt(c)
            guarded = bool(pre_assert)
            for t, pol in atomic_guards(st):
                if pol and is_guard_expr(t):
                    guarded = True
                if not pol and isinstance(t, ast.UnaryOp):
                    pass
            # `assert not is_collecting or X` style is not a guard for calls
            if guarded:
                ctx.ok("C15.R2", f, c, "asserting Metrics.%s is under a "
                       "collecting guard" % name)
            else:
                ctx.bad("C15.R2", f, c,
                        "Metrics.%s asserts that collection is on, but this "
                        "call is not dominated by a collecting guard "
                        "(Metrics.isCollecting() / is_collecting / a *_traced "
                        "flag): with metrics OFF every kernel that reaches it "
                        "crashes with an AssertionError" % name)
    ctx.floor("C15.R2", n, 60, "asserting Metrics call sites")


# ---------------------------------------------------------------------------
COUNTERS = {
    "__add__": ["payload_add"], "__radd__": ["payload_add"],
    "__mul__": ["payload_mul"], "__rmul__": ["payload_mul"],
    "__iadd__": ["payload_update", "payload_add?"],
    "__imul__": ["payload_mul", "payload_update"],
    "__ilshift__": ["payload_update"],
}


def _if_guards(st):
    """Atomic conditions of the enclosing if-statements only."""
    from ..cfg import flatten_conj
    out = []
    n = st
    while n is not None and not isinstance(n, (ast.FunctionDef, ast.Lambda)):
        pb = parent_block(n) if isinstance(n, ast.stmt) else None
        if pb is not None and isinstance(pb[2], ast.If):
            out.extend(flatten_conj(pb[2].test, pb[3] == "body"))
        n = getattr(n, "_parent", None)
    return out


def _inccounts(f):
    out = []
    for c in f.own_nodes():
        if isinstance(c, ast.Call) and text(c.func) == "Metrics.incCount" and \
                len(c.args) == 3 and isinstance(c.args[0], ast.Constant) and \
                c.args[0].value == "Compute":
            out.append(c)
    return out


def r3_counters(ctx):
    P = ctx.prog.cls("Payload")
    for mname, want in COUNTERS.items():
        f = P.methods.get(mname)
        ctx.require(f is not None, "C15.R3: Payload.%s vanished" % mname)
        calls = _inccounts(f)
        got = []
        okall = True
        g = cfg_of(f, assert_edges=False)
        good, is_guard_expr = _collecting_vars(ctx, f)
        for c in calls:
            metric = c.args[1].value if isinstance(c.args[1], ast.Constant) else "?"
            inc = text(c.args[2])
            raw = _if_guards(enclosing_stmt(c))
            coll = any(pol and is_guard_expr(t) for t, pol in raw)
            extra = [(text(t).replace(" ", ""), pol) for t, pol in raw
                     if not (pol and is_guard_expr(t))]
            if not coll or inc != "1":
                okall = False
            if extra:
                if mname == "__iadd__" and metric == "payload_add" and \
                        _old_nonzero(ctx, f, extra):
                    got.append("payload_add?")
                else:
                    okall = False
                    got.append(metric + "?")
            else:
                got.append(metric)
        # every normal return passes the counting step (no early exit that
        # performs -- or skips -- the operation uncounted)
        from ..cfg import ENTRY
        tops = set()
        for c in calls:
            t_ = enclosing_stmt(c)
            while getattr(t_, "_parent", None) is not None and t_ not in f.body:
                t_ = t_._parent
            tops.add(t_)
        skipped = [r for r in pat.returns(f) if tops and
                   r in g.reachable(ENTRY, avoid=tops)]
        if skipped and okall and sorted(got) == sorted(want):
            ctx.bad("C15.R3", f, skipped[0], "Payload.%s can return without "
                    "passing its counting step (`%s` is reachable around it): "
                    "operations the kernel executes on that path are not "
                    "counted" % (mname, text(skipped[0])),
                    text_="Payload.%s counters" % mname)
        elif okall and sorted(got) == sorted(want):
            ctx.ok("C15.R3", f, f.node, "counts %s under a collecting guard"
                   % want, text_="Payload.%s counters" % mname)
        else:
            ctx.bad("C15.R3", f, calls[0] if calls else f.node,
                    "Payload.%s must count exactly %s (each once, +1, under "
                    "`if Metrics.isCollecting()`; payload_add of += only when "
                    "the old value was non-zero); it counts %s: the reported "
                    "operation counts no longer equal the operations executed"
                    % (mname, want, sorted(got)),
                    text_="Payload.%s counters" % mname)
    # nobody else counts compute operations
    for f in ctx.prog.funcs.values():
        if f.module.rel.startswith(("codec/", "notebook/")) or \
                f.module.rel == "core/metrics.py":
            continue
        if f.cls is P and f.name in COUNTERS:
            continue
        for c in _inccounts(f):
            ctx.bad("C15.R3", f, c, "Compute counter incremented outside the "
                    "payload operator table (%s): operations are double "
                    "counted or counted where none happens" % f.key)
    f = ctx.method("Compute", "numOps")
    src = "\n".join(text(s) for s in f.body).replace(" ", "")
    okn = any(pat.inline(ctx, f, r.value).replace(" ", "") ==
              "dump['Compute']['payload_'+op]" for r in pat.returns(f))
    if okn:
        ctx.ok("C15.R3", f, f.node, "numOps reads the payload_<op> counter",
               text_="Compute.numOps")
    else:
        ctx.bad("C15.R3", f, f.node, "Compute.numOps no longer reads "
                "dump['Compute']['payload_' + op]", text_="Compute.numOps")


def _old_nonzero(ctx, f, extra):
    """guard `old != 0` where old = self.value captured before the store"""
    if len(extra) != 1:
        return False
    t, pol = extra[0]
    if not pol:
        return False
    for var in ("old",):
        pass
    import re
    m = re.match(r"^(\w+)!=0$", t)
    if not m:
        return False
    var = m.group(1)
    defs = [n for n in f.own_nodes() if isinstance(n, ast.Assign)
            and text(n.targets[0]) == var]
    stores = [n for n in f.own_nodes() if isinstance(n, ast.Assign)
              and text(n.targets[0]) == "self.value"]
    if len(defs) != 1 or text(defs[0].value) != "self.value" or not stores:
        return False
    g = cfg_of(f, assert_edges=False)
    return all(g.dominates(defs[0], s) for s in stores)


# ---------------------------------------------------------------------------
def r4_reset(ctx):
    M = ctx.prog.cls("Metrics")
    mutated = {}
    for name, m in M.methods.items():
        if not m.params:
            continue
        clsn = m.params[0]
        for n in m.own_nodes():
            tgt = None
            if isinstance(n, (ast.Assign, ast.AugAssign)):
                for t in (n.targets if isinstance(n, ast.Assign) else [n.target]):
                    b = t
                    while isinstance(b, ast.Subscript):
                        b = b.value
                    if isinstance(b, ast.Attribute) and text(b.value) == clsn:
                        tgt = b.attr
                        mutated.setdefault(tgt, set()).add(name)
            elif isinstance(n, ast.Call) and isinstance(n.func, ast.Attribute) and \
                    n.func.attr in ("append", "add", "update", "pop", "clear",
                                    "extend", "insert", "setdefault"):
                b = n.func.value
                while isinstance(b, ast.Subscript):
                    b = b.value
                if isinstance(b, ast.Attribute) and text(b.value) == clsn:
                    mutated.setdefault(b.attr, set()).add(name)
    # assignments from other modules
    for f in ctx.prog.funcs.values():
        if f.module.rel == "core/metrics.py" or f.module.rel.startswith("codec/"):
            continue
        for n in f.own_nodes():
            if isinstance(n, (ast.Assign, ast.AugAssign)):
                for t in (n.targets if isinstance(n, ast.Assign) else [n.target]):
                    b = t
                    while isinstance(b, ast.Subscript):
                        b = b.value
                    if isinstance(b, ast.Attribute) and text(b.value) == "Metrics":
                        mutated.setdefault(b.attr, set()).add(f.key)
    bc = M.methods.get("beginCollect")
    ctx.require(bc is not None, "C15.R4: Metrics.beginCollect vanished")
    fresh = {}
    for n in bc.own_nodes():
        if isinstance(n, ast.Assign) and isinstance(n.targets[0], ast.Attribute) \
                and text(n.targets[0].value) == bc.params[0]:
            fresh[n.targets[0].attr] = n
    ctx.floor("C15.R4", len(mutated), 10, "mutable Metrics attributes")
    for attr in sorted(mutated):
        if attr == "num_cached_uses":
            ctx.ok("C15.R4", bc, bc.node, "num_cached_uses is a user setting "
                   "(C16: must not matter)", text_="reset num_cached_uses")
            continue
        n = fresh.get(attr)
        if n is None:
            ctx.bad("C15.R4", bc, bc.node,
                    "Metrics.%s is mutated by %s but beginCollect does not "
                    "reset it: state of an earlier session leaks into the next "
                    "one (the per-test endCollect() in the suite masks this)"
                    % (attr, sorted(mutated[attr])[:3]),
                    text_="beginCollect resets %s" % attr)
            continue
        v = n.value
        lit = isinstance(v, (ast.Dict, ast.List, ast.Set, ast.Constant)) and \
            not (isinstance(v, (ast.Dict, ast.List, ast.Set)) and
                 (getattr(v, "keys", None) or getattr(v, "elts", None)))
        if lit or (isinstance(v, ast.Name) and v.id in bc.all_param_names()):
            ctx.ok("C15.R4", bc, n, "reset to a fresh value",
                   text_="beginCollect resets %s" % attr)
        else:
            ctx.bad("C15.R4", bc, n, "beginCollect sets Metrics.%s to `%s`, "
                    "which is not a fresh empty value" % (attr, text(v)),
                    text_="beginCollect resets %s" % attr)


def r5_confined(ctx):
    mod = ctx.module("core/metrics.py")
    bad = [k for k, (src, nm) in mod.imports.items()
           if src.startswith(".") or src.startswith("fibertree")]
    if bad:
        ctx.bad("C15.R5", mod, mod.tree, "metrics.py imports %s from the "
                "package" % bad, text_="metrics.py imports")
    else:
        ctx.ok("C15.R5", mod, mod.tree.body[0], "metrics.py imports nothing "
               "from the package", text_="metrics.py imports")
    M = ctx.prog.cls("Metrics")
    for name, m in sorted(M.methods.items()):
        ws = [(loc, r) for loc, r, c, w in ctx.eff.writes(m, tree_only=True)
              if loc not in STATS_LOCS]
        if ws:
            ctx.bad("C15.R5", m, m.node, "Metrics.%s writes tree state %s"
                    % (name, ws[0][0]), text_="Metrics.%s" % name)
        else:
            ctx.ok("C15.R5", m, m.node, "writes only Metrics.* / files",
                   text_="Metrics.%s" % name)
    for name in ("numOps", "numIters"):
        f = ctx.method("Compute", name)
        ws = ctx.eff.writes(f, tree_only=False)
        ws = [x for x in ws if not x[0].startswith(("FS.",))]
        if ws:
            ctx.bad("C15.R5", f, f.node, "Compute.%s has side effects (%s)"
                    % (name, ws[0][0]), text_="Compute.%s" % name)
        else:
            ctx.ok("C15.R5", f, f.node, "pure reader", text_="Compute.%s" % name)


def r6_ticks(ctx):
    for name in ("iterRange", "iterRangeShape", "iterRangeShapeRef"):
        f0 = ctx.func("core/iterators.py:" + name)
        cv = rv = None
        for n_ in f0.own_nodes():
            if isinstance(n_, ast.Assign) and isinstance(n_.value, ast.Call) and \
                    text(n_.value.func) == "_prep_metrics_inc" and \
                    isinstance(n_.targets[0], ast.Tuple) and len(n_.targets[0].elts) == 2:
                cv, rv = [text(e) for e in n_.targets[0].elts]
        ctx.require(cv and rv, "C15.R6: %s does not obtain (collecting, rank) from "
                    "_prep_metrics_inc" % name)
        ctx.require("tick" in f0.all_param_names(), "C15.R6: %s has no tick parameter" % name)
        # the function as it reads while collecting with tick=True (however the
        # two modes are told apart: per statement, or by one test around two
        # copies of the loop)
        from ..symcase import case_view, names_decider
        f = case_view(f0, names_decider({cv: True, "tick": True}), "collecting+tick")
        ys = pat.yields(f)
        ctx.require(len(ys) == 1, "C15.R6: %s must have one yield (while collecting "
                    "with tick=True)" % name)
        y = enclosing_stmt(ys[0])
        loop = [a for a in _anc(y) if isinstance(a, ast.For)]
        ctx.require(loop, "C15.R6: yield of %s is not in a loop" % name)
        loop = loop[0]
        g = cfg_of(f, assert_edges=False)

        def tick_calls(meth):
            out = []
            for c in pat.calls(f, name="Metrics." + meth):
                if c.args and text(c.args[0]) == rv:
                    out.append(c)
            return out
        reg = [c for c in tick_calls("registerRank") if not is_within(c, loop)
               and g.can_reach(enclosing_stmt(c), loop)]
        inc = [c for c in tick_calls("incIter") if is_within(c, loop)]
        end = [c for c in tick_calls("endIter") if not is_within(c, loop)
               and g.can_reach(loop, enclosing_stmt(c))]
        all_inc = [c for c in pat.calls(f, name="Metrics.incIter")]
        ok = len(reg) == 1 and len(inc) == 1 and len(end) == 1 and len(all_inc) == 1
        if ok:
            # the incIter follows the yield in the same block: once per body
            pb_y, pb_i = parent_block(y), parent_block(enclosing_stmt(inc[0]))
            ok = pb_y is not None and pb_i is not None and pb_y[0] is pb_i[0] and \
                pb_i[1] > pb_y[1]
        if ok:
            ctx.ok("C15.R6", f, inc[0], "registerRank before the loop, one "
                   "incIter after each yield, endIter after the loop")
        else:
            ctx.bad("C15.R6", f, y, "%s: under `is_collecting and tick` there "
                    "must be one registerRank(rank) before the loop, exactly "
                    "one incIter(rank) after each yield and one endIter(rank) "
                    "after the loop (found %d/%d/%d): the iteration count of a "
                    "traced rank no longer equals the loop bodies executed"
                    % (name, len(reg), len(inc), len(end)),
                    text_="%s ticks" % name)
        # with tick=False nothing of this is done
        off = case_view(f0, names_decider({"tick": False}), "tick=False")
        stray = [c for m_ in ("registerRank", "incIter", "endIter", "addUse")
                 for c in pat.calls(off, name="Metrics." + m_)
                 if m_ != "addUse" or pat.kwarg(c, "type_", 3) is None]
        if stray:
            ctx.bad("C15.R6", f0, stray[0], "%s: `%s` is also done with tick=False: "
                    "a walk that asks not to be counted moves the iteration "
                    "count / the iter trace of the rank" % (name, text(stray[0])),
                    text_="%s ticks only with tick" % name)
        else:
            ctx.ok("C15.R6", f0, f0.node, "nothing is counted with tick=False",
                   text_="%s ticks only with tick" % name)
        # rows of the default ("iter") trace are what Compute.numIters counts:
        # one row per executed loop body = addUse in the block of the yield
        uses = [c for c in pat.calls(f, name="Metrics.addUse")
                if pat.kwarg(c, "type_", 3) is None]
        if name == "iterRange" and not uses:
            ctx.bad("C15.R6", f, y, "iterRange no longer records a row of the "
                    "iter trace per yield (no Metrics.addUse without type_): "
                    "Compute.numIters reports 0 for every traced rank",
                    text_="%s iter row" % name)
        for c in uses:
            top = enclosing_stmt(c)
            for a in _anc(c):
                if isinstance(a, ast.If) and parent_block(a) and \
                        parent_block(a)[0] is parent_block(y)[0]:
                    top = a
            pb_u, pb_y = parent_block(top), parent_block(y)
            if c in tick_calls("addUse") and pb_u and pb_y and \
                    pb_u[0] is pb_y[0] and pb_u[1] < pb_y[1]:
                ctx.ok("C15.R6", f, c, "one iter-trace row per yield (same "
                       "block, in front of it)", text_="%s iter row" % name)
            else:
                ctx.bad("C15.R6", f, c, "%s: the iter-trace row is not recorded "
                        "exactly once per yield (it is not in the block of the "
                        "yield, in front of it, under `is_collecting and tick`): "
                        "Compute.numIters / the iteration count of a traced "
                        "rank differs from the loop bodies executed" % name,
                        text_="%s iter row" % name)
