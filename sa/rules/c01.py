"""C01 -- fibertrees stay well-formed under every history of public mutations.

Representation invariant I(f): len(coords) == len(payloads), coords strictly
increasing for ordered/unique fibers, every payload a singly boxed Payload
or a Fiber.  The constructor establishes I; this module re-derives, from the
current source, every statement that can write the two lists and discharges
each one by an accepted idiom (DESIGN.md section 3, C01.R1-R5).
"""

import ast

from ..model import text, construct, AnalysisError
from ..cfg import cfg_of, guards, atomic_guards, parent_block, RAISE, \
    enclosing_stmt, is_within, block_always_leaves
from ..sites import field_mutations, LEN_CHANGING
from .. import pat

EXPLANATION = (
    "Inductive-invariant audit of the Fiber representation: every syntactic "
    "mutation of Fiber.coords / Fiber.payloads in fibertree/ (outside codec/) "
    "is enumerated from the current source, must lie in the audited modules, "
    "must be paired with the same length change on the sibling list, must "
    "store only boxed values, must match one of the order-preserving idioms "
    "(sorted insertion, monotone append, guarded replace, re-sort, deletion, "
    "fresh local, constructor) and, in the rejecting mutators, no write may "
    "precede a rejection; a caller that passes a carried relative-bisect "
    "position must take it back by one wherever it deletes an element.  "
    "Decides the structural clauses only; leaf-depth "
    "uniformity and partition ordering inside splitters are not decided.")
RULE = ("one obligation per (mutation site x applicable rule R1-R5) plus the "
        "helper obligations (_coord2pos is bisect_left, _coordExists, "
        "maxCoord, _checkOrdered/_checkUnique, boxing helpers); an obligation "
        "is non-trivial when attached to a distinct construct of /repo")

AUDITED = ("core/fiber.py", "core/iterators.py")
FIELDS = {"coords", "payloads"}
ANCHORS = ["core/fiber.py:Fiber.__init__", "core/fiber.py:Fiber._create_payload",
           "core/fiber.py:Fiber.__setitem__", "core/fiber.py:Fiber.append",
           "core/fiber.py:Fiber.extend", "core/fiber.py:Fiber.updateCoords",
           "core/fiber.py:Fiber.clear",
           "core/iterators.py:__lshift__.lshift_iterator.__iter__"]
PURE_ARG_SINKS = {"len", "zip", "enumerate", "list", "sorted", "reversed",
                  "tuple", "min", "max", "sum", "iter", "isinstance", "any",
                  "all", "map", "filter", "set", "str", "repr", "print",
                  "bisect.bisect_left", "bisect.bisect_right", "range",
                  "copy.deepcopy", "deepcopy", "type", "id", "bool"}


def run(ctx):
    prog = ctx.prog
    ctx.eff            # aliases need the effect contexts
    all_sites = []
    for f in prog.funcs.values():
        if f.module.rel.startswith("codec/"):
            continue
        for m in field_mutations(ctx, f, FIELDS):
            bt = ctx.ty.expr(f, m.base)
            if bt and "Fiber" not in bt and not any(
                    t.startswith("nested:") for t in bt) and \
                    not (bt <= {"list", "tuple", "dict"}):
                continue          # a different class's field of that name
            all_sites.append(m)
    ctx.guard(r1_who_may_write, all_sites)
    ctx.guard(r1_escapes)
    by_func = {}
    for m in all_sites:
        by_func.setdefault(m.func, []).append(m)
    for f, ms in by_func.items():
        ctx.guard(r2_pairing, f, ms)
        ctx.guard(r3_boxed, f, ms)
        ctx.guard(r4_order, f, ms)
    ctx.guard(r3_helpers)
    ctx.guard(r4_helpers)
    ctx.guard(r5_reject_before_write, by_func)
    ctx.assume("asserts are executed (python -O is not used): several guards "
               "are assert statements")
    ctx.assume("the callback given to updateCoords is injective on the "
               "fiber's coordinates (documented in the method)")
    ctx.assume("splitters deliver partitions in ascending order (C08, not "
               "decided): raw appends to the fresh upper fiber in _splitFiber")


# ---------------------------------------------------------------------------
def r1_who_may_write(ctx, sites):
    seen_funcs = set()
    for m in sites:
        seen_funcs.add(m.func.key)
        if m.func.module.rel in AUDITED:
            ctx.ok("C01.R1", m.func, m.node, "write inside an audited module")
        else:
            ctx.bad("C01.R1", m.func, m.node,
                    "raw write to Fiber.%s outside core/fiber.py and "
                    "core/iterators.py%s: the representation invariant is no "
                    "longer guarded by the audited idioms (any fiber reaching "
                    "this code can end up unsorted / unpaired / unboxed)"
                    % (m.attr, " through an alias of the raw list"
                       if m.via_alias else ""))
    for key in ANCHORS:
        ctx.func(key)
        if key not in seen_funcs:
            raise AnalysisError(
                "C01.R1: no visible write to coords/payloads in anchored "
                "mutator %s -- the analysis lost sight of the mechanism" % key)


def r1_escapes(ctx):
    """The raw lists may be handed only to read-only sinks."""
    for f in ctx.prog.funcs.values():
        rel = f.module.rel
        if rel.startswith(("codec/", "notebook/")):
            continue
        for n in f.own_nodes():
            if not isinstance(n, ast.Call):
                continue
            fn = text(n.func)
            for a in list(n.args) + [k.value for k in n.keywords]:
                if not _is_raw_list(ctx, f, a):
                    continue
                if fn in PURE_ARG_SINKS:
                    continue
                tg = ctx.ty.resolve(f, n)
                if tg.kind == "ctor" and tg.cls.name == "Fiber":
                    continue
                if tg.kind in ("resolved", "byname") and tg.funcs and all(
                        _param_readonly(ctx, c, n, a) for c in tg.funcs):
                    ctx.ok("C01.R1", f, n, "raw list passed to a callee that "
                           "only reads the parameter")
                    continue
                if isinstance(n.func, ast.Attribute) and n.func.attr in (
                        "extend", "index", "count", "copy") and \
                        not tg.funcs:
                    continue        # list.extend(other.coords) reads the arg
                ctx.bad("C01.R1", f, n,
                        "raw coords/payloads list escapes to `%s`, which is "
                        "not known to leave it unmodified" % fn)


def _is_raw_list(ctx, f, a):
    if isinstance(a, ast.Attribute) and a.attr in FIELDS:
        bt = ctx.ty.expr(f, a.value)
        return not bt or "Fiber" in bt
    if isinstance(a, ast.Call) and isinstance(a.func, ast.Attribute) and \
            a.func.attr in ("getCoords", "getPayloads"):
        return True
    return False


def _param_readonly(ctx, callee, call, arg):
    """callee never mutates the parameter that receives `arg`."""
    from ..effects import FuncCtx, MUTATORS
    fc = FuncCtx(ctx.eff, callee)
    tg = ctx.ty.resolve(ctx.prog.enclosing_func(call), call)
    amap = FuncCtx(ctx.eff, ctx.prog.enclosing_func(call)).argmap(call, callee, tg)
    names = [p for p, lst in amap.items() if any(x is arg for x in lst)]
    if not names:
        return False
    for n in callee.own_nodes():
        if isinstance(n, ast.Call) and isinstance(n.func, ast.Attribute) and \
                n.func.attr in MUTATORS and isinstance(n.func.value, ast.Name) \
                and n.func.value.id in names:
            return False
        if isinstance(n, (ast.Assign, ast.AugAssign, ast.Delete)):
            tgts = n.targets if not isinstance(n, ast.AugAssign) else [n.target]
            for t in tgts:
                if isinstance(t, ast.Subscript) and isinstance(t.value, ast.Name) \
                        and t.value.id in names:
                    return False
    return True


# ---------------------------------------------------------------------------
def _len_changing(m):
    if m.kind in ("rebind", "delitem"):
        return True
    return m.kind.startswith("call:") and m.kind[5:] in LEN_CHANGING


def _pair_sig(ctx, m):
    """What must agree between the coords-side and the payloads-side write."""
    base = text(m.base)
    if m.kind == "call:insert":
        return (base, m.kind, pat.inline(ctx, m.func, m.args[0]) if m.args else "")
    if m.kind == "delitem":
        return (base, m.kind, pat.inline(ctx, m.func, m.args[0]))
    if m.kind == "call:pop":
        return (base, m.kind, ",".join(pat.inline(ctx, m.func, a) for a in m.args))
    return (base, m.kind, "")


def r2_pairing(ctx, f, ms):
    lc = [m for m in ms if _len_changing(m)]
    used = set()
    for m in lc:
        if id(m) in used:
            continue
        other = "payloads" if m.attr == "coords" else "coords"
        sig = _pair_sig(ctx, m)
        partner = None
        for p in lc:
            if id(p) in used or p is m or p.attr != other:
                continue
            if _pair_sig(ctx, p) != sig:
                continue
            if p.stmt is m.stmt or pat.adjacent(p.stmt, m.stmt):
                partner = p
                break
        if partner is None:
            ctx.bad("C01.R2", f, m.node,
                    "length-changing write to %s.%s has no matching adjacent "
                    "write to .%s with the same position: the two lists lose "
                    "their one-to-one pairing for every fiber this runs on"
                    % (text(m.base), m.attr, other))
        else:
            used.add(id(m))
            used.add(id(partner))
            ctx.ok("C01.R2", f, m.node,
                   "paired with `%s`" % construct(partner.stmt))


# ---------------------------------------------------------------------------
BOXED_TYPES = {"Fiber", "Payload"}


def is_boxed(ctx, f, expr, depth=0):
    """Expression certainly evaluates to a Payload box or a Fiber."""
    if depth > 6 or expr is None:
        return False
    if isinstance(expr, ast.Call):
        fn = text(expr.func)
        if fn in ("Payload.maybe_box", "Payload"):
            return True
        t = ctx.ty.expr(f, expr)
        tg = ctx.ty.resolve(f, expr)
        if t and t <= BOXED_TYPES and tg.kind in ("resolved", "byname", "ctor"):
            return True
        return False
    if isinstance(expr, ast.Subscript) and not isinstance(expr.slice, ast.Slice):
        v = expr.value
        if isinstance(v, ast.Attribute) and v.attr == "payloads":
            return True
        t = ctx.ty.expr(f, expr)
        return bool(t) and t <= BOXED_TYPES
    if isinstance(expr, ast.Name):
        st = enclosing_stmt(expr)
        for test, pol in (guards(st) if st is not None else []):
            if pol and isinstance(test, ast.Call) and \
                    text(test.func) == "Payload.is_payload" and \
                    test.args and text(test.args[0]) == expr.id:
                return True
        facts, is_param = ctx.ty.facts_at(f, expr.id, expr)
        if is_param or not facts:
            return False
        for fa in facts:
            if fa.kind == "expr" and not fa.path:
                if not is_boxed(ctx, f, fa.value, depth + 1):
                    return False
            elif fa.kind == "elem":
                t = pat_project(ctx, f, fa)
                if not (t and t <= BOXED_TYPES):
                    return False
            else:
                return False
        return True
    if isinstance(expr, ast.IfExp):
        return is_boxed(ctx, f, expr.body, depth + 1) and \
            is_boxed(ctx, f, expr.orelse, depth + 1)
    return False


def pat_project(ctx, f, fa):
    from ..types import project, flat
    return flat(project(ctx.ty.elem_shape(f, fa.value), fa.path))


def _list_of_boxed(ctx, f, expr):
    """A list expression all of whose elements are boxed."""
    if isinstance(expr, ast.List):
        return all(is_boxed(ctx, f, e) for e in expr.elts)
    if isinstance(expr, ast.ListComp):
        return is_boxed(ctx, f, expr.elt)
    if isinstance(expr, ast.Attribute) and expr.attr == "payloads":
        return True
    if isinstance(expr, ast.Name):
        v = pat.single_def(ctx, f, expr)
        return v is not None and _list_of_boxed(ctx, f, v)
    return False


def r3_boxed(ctx, f, ms):
    for m in ms:
        if m.attr != "payloads":
            continue
        val = None
        ok = None
        if m.kind == "call:insert" and len(m.args) > 1:
            val = m.args[1]
        elif m.kind == "call:append" and m.args:
            val = m.args[0]
        elif m.kind in ("setitem", "augitem"):
            val = m.value
        elif m.kind == "call:extend" and m.args:
            ok = _list_of_boxed(ctx, f, m.args[0])
            val = m.args[0]
        elif m.kind == "rebind":
            if isinstance(m.stmt, ast.Assign) and \
                    isinstance(m.stmt.targets[0], (ast.Tuple, ast.List)):
                ok = _is_joint_resort(ctx, f, m.stmt)
            else:
                ok = _list_of_boxed(ctx, f, m.value) or \
                    _is_joint_resort(ctx, f, m.stmt)
            val = m.value
        else:
            continue        # deletions, clear, pop store nothing
        if ok is None:
            ok = is_boxed(ctx, f, val)
        if ok:
            ctx.ok("C01.R3", f, m.node, "stored value is boxed (%s)" % text(val)[:60])
        else:
            ctx.bad("C01.R3", f, m.node,
                    "value stored into %s.payloads (`%s`) is not known to be a "
                    "Payload box or a Fiber: a raw scalar (or a callback's "
                    "arbitrary result) becomes a leaf payload, breaking the "
                    "singly-boxed-leaf invariant for every later reader"
                    % (text(m.base), text(val)[:60]))


def r3_helpers(ctx):
    # _instantiateDefault / _createDefault hand out boxed values
    f = ctx.method("Fiber", "_instantiateDefault")
    rets = pat.returns(f)
    ctx.require(rets, "C01.R3: _instantiateDefault has no return")
    for r in rets:
        if r.value is not None and (pat.is_call(r.value, "Payload.maybe_box", "Payload")):
            ctx.ok("C01.R3", f, r, "default is boxed on return")
        else:
            ctx.bad("C01.R3", f, r, "_instantiateDefault returns an unboxed "
                    "default: every inserted default payload is then a raw value")
    f = ctx.method("Fiber", "_createDefault")
    for r in pat.returns(f):
        if isinstance(r.value, ast.Call) and \
                text(r.value.func).endswith("_instantiateDefault"):
            ctx.ok("C01.R3", f, r, "delegates to _instantiateDefault")
        else:
            ctx.bad("C01.R3", f, r, "_createDefault does not return the "
                    "(boxed) result of _instantiateDefault")
    # maybe_box boxes scalars and returns anything else unchanged
    f = ctx.method("Payload", "maybe_box")
    boxes = [r for r in pat.returns(f) if pat.is_call(r.value, "Payload")]
    tests = [n for n in f.own_nodes() if isinstance(n, ast.Call)
             and text(n.func) == "isinstance"]
    listed = set()
    for t in tests:
        if len(t.args) == 2:
            el = t.args[1].elts if isinstance(t.args[1], ast.Tuple) else [t.args[1]]
            listed |= {text(e) for e in el}
    need = {"bool", "float", "int", "str", "tuple"}
    if boxes and need <= listed:
        ctx.ok("C01.R3", f, boxes[0], "maybe_box boxes %s" % sorted(listed))
    else:
        ctx.bad("C01.R3", f, f.node, "Payload.maybe_box no longer boxes all "
                "of %s (missing %s): such values are stored raw"
                % (sorted(need), sorted(need - listed)),
                text_="def maybe_box(value)")
    # no double boxing: Payload.__setattr__ unwraps a Payload value
    f = ctx.method("Payload", "__setattr__")
    store = [n for n in f.own_nodes() if isinstance(n, ast.Assign) and
             isinstance(n.targets[0], ast.Subscript) and
             text(n.targets[0].value).endswith("__dict__")]
    ctx.require(store, "C01.R3: Payload.__setattr__ store not found")
    unwrap = False
    for n in f.own_nodes():
        if isinstance(n, ast.If) and isinstance(n.test, ast.Call) and \
                text(n.test.func) == "isinstance" and len(n.test.args) == 2 and \
                text(n.test.args[1]) == "Payload":
            vname = text(n.test.args[0])
            for b in n.body:
                if isinstance(b, ast.Assign) and text(b.targets[0]) == vname and \
                        text(b.value) in (vname + ".v()", vname + ".value"):
                    g = cfg_of(f)
                    if g.dominates(n, store[0]):
                        unwrap = True
    if unwrap:
        ctx.ok("C01.R3", f, store[0], "a Payload assigned to .value is unwrapped first")
    else:
        ctx.bad("C01.R3", f, store[0], "Payload.__setattr__ stores a Payload "
                "inside a Payload (double boxing): Payload(Payload(3)).value "
                "is then itself a box")
    # the constructor normalises
    f = ctx.method("CoordPayload", "__init__")
    ok = any(isinstance(n, ast.Assign) and text(n.targets[0]).endswith(".payload")
             and pat.is_call(n.value, "Payload.maybe_box") for n in f.own_nodes())
    if ok:
        ctx.ok("C01.R3", f, f.node, "CoordPayload boxes its payload",
               text_="def __init__(self, coord, payload)")


# ---------------------------------------------------------------------------
def _unzipped_sorted(ctx, f, expr, base):
    """k if `expr` is (a list(...) of) the k-th component of
    `zip(*sorted(zip(<base>.coords, <base>.payloads)))`, else None."""
    e = expr
    if isinstance(e, ast.Call) and text(e.func) in ("list", "tuple") and len(e.args) == 1:
        e = e.args[0]
    if not isinstance(e, ast.Name):
        return None
    facts, is_param = ctx.ty.facts_at(f, e.id, e)
    if is_param or len(facts) != 1:
        return None
    fa = facts[0]
    v = fa.value
    if fa.kind != "expr" or len(fa.path) != 1 or not (
            isinstance(v, ast.Call) and text(v.func) == "zip" and len(v.args) == 1
            and isinstance(v.args[0], ast.Starred)):
        return None
    src = pat.inline(ctx, f, v.args[0].value, depth=4).replace(" ", "")
    if src == "sorted(zip(%s.coords,%s.payloads))" % (base, base):
        return fa.path[0]
    return None


def _is_joint_resort(ctx, f, stmt):
    """``self.coords, self.payloads = <unzip of sorted(zip(self.coords,
    self.payloads))>`` -- in one tuple assignment, or as the pair
    ``c, p = zip(*sorted(zip(..)))``; ``self.coords = list(c)``;
    ``self.payloads = list(p)`` in one block."""
    if not isinstance(stmt, ast.Assign):
        return False
    if isinstance(stmt.targets[0], ast.Attribute) and \
            stmt.targets[0].attr in ("coords", "payloads"):
        base = text(stmt.targets[0].value)
        k = _unzipped_sorted(ctx, f, stmt.value, base)
        want_k = 0 if stmt.targets[0].attr == "coords" else 1
        if k != want_k:
            return False
        other = "payloads" if want_k == 0 else "coords"
        pb = parent_block(stmt)
        for st in (pb[0] if pb else []):
            if isinstance(st, ast.Assign) and isinstance(st.targets[0], ast.Attribute) \
                    and st.targets[0].attr == other and \
                    text(st.targets[0].value) == base and \
                    _unzipped_sorted(ctx, f, st.value, base) == 1 - want_k:
                return True
        return False
    if not isinstance(stmt.targets[0], (ast.Tuple, ast.List)):
        return False
    tg = [text(t) for t in stmt.targets[0].elts]
    if len(tg) != 2 or not tg[0].endswith(".coords") or \
            not tg[1].endswith(".payloads") or \
            tg[0][:-7] != tg[1][:-9]:
        return False
    base = tg[0][:-7]
    src = pat.inline(ctx, f, stmt.value, depth=4).replace(" ", "")
    want = "sorted(zip(%s.coords,%s.payloads))" % (base, base)
    return want in src and "zip(*" in src


def _sorted_pos(ctx, f, m, coord_text):
    """Is the insert position the sorted position of the inserted coordinate?
    Returns (verdict, idiom text)."""
    pos = m.args[0]
    base = text(m.base)
    cands = _leaf_defs(ctx, f, pos)
    if cands is None:
        return False, "position has a non-expression definition"
    if not cands:
        return False, "position has no definition"
    for c in cands:
        if isinstance(c, str):
            ok, why = _param_pos_sorted(ctx, f, c[6:], coord_text)
            if not ok:
                return False, why
            continue
        t = pat.inline(ctx, f, c).replace(" ", "")
        if t == "%s._coord2pos(%s)" % (base, coord_text.replace(" ", "")):
            continue
        return False, "position `%s` is not %s._coord2pos(%s)" % (
            text(c), base, coord_text)
    return True, "position is _coord2pos of the inserted coordinate"


def _leaf_defs(ctx, f, expr, depth=0):
    """Defining expressions of `expr`, following plain name-to-name copies;
    'PARAM:<name>' for a parameter value.  None if not expressible."""
    if not isinstance(expr, ast.Name):
        return [expr]
    if depth > 5:
        return None
    facts, is_param = ctx.ty.facts_at(f, expr.id, expr)
    out = []
    for fa in facts:
        if fa.kind != "expr" or fa.path:
            return None
        if isinstance(fa.stmt, ast.AugAssign):
            out.append(fa.value)
            continue
        sub = _leaf_defs(ctx, f, fa.value, depth + 1)
        if sub is None:
            return None
        out.extend(sub)
    if is_param:
        out.append("PARAM:" + expr.id)
    return out


_net_after = pat.net_after


def _param_pos_sorted(ctx, f, pname, coord_text):
    """Every caller passing `pname` computes it by bisect_left over the
    fiber's own coordinates for the coordinate it inserts."""
    sites = ctx.eff.call_sites.get(f, [])
    checked = 0
    for caller, call, tg in sites:
        a = pat.kwarg(call, pname)
        if a is None:
            continue
        checked += 1
        recv = text(call.func.value) if isinstance(call.func, ast.Attribute) else ""
        cparam = f.params[1] if len(f.params) > 1 else None
        carg = pat.kwarg(call, cparam, 0) if cparam else None
        if carg is None:
            return False, "caller %s does not pass the coordinate" % caller.key
        ctext = text(carg).replace(" ", "")
        if not isinstance(a, ast.Name):
            return False, "caller passes a non-variable position"
        facts, is_param = ctx.ty.facts_at(caller, a.id, a)
        good = False
        for fa in facts:
            if isinstance(fa.stmt, ast.AugAssign) and \
                    isinstance(fa.stmt.op, ast.Add):
                t = pat.inline(ctx, caller, fa.value).replace(" ", "")
                want = "bisect.bisect_left(%s.coords[%s:],%s)" % (recv, a.id, ctext)
                if t == want:
                    good = True
                elif "bisect" in t:
                    return False, ("caller %s advances the position with `%s`, "
                                   "not bisect_left over the fiber's remaining "
                                   "coordinates for the inserted coordinate"
                                   % (caller.key, text(fa.value)))
        if not good:
            return False, ("caller %s passes pos=%s without a bisect_left "
                           "search for the inserted coordinate" % (caller.key, a.id))
        # the search is relative to the carried position (coords[pos:]): it is
        # only the sorted position while pos never overtakes the elements --
        # every deletion from the coordinate list must take the position back
        for d in caller.own_nodes():
            if isinstance(d, ast.Delete) and any(
                    isinstance(t, ast.Subscript) and
                    text(t.value).replace(" ", "") == "%s.coords" % recv
                    for t in d.targets):
                net = _net_after(d, a.id)
                if net is not None and net != {0}:
                    return False, (
                        "caller %s deletes an element of %s.coords but does not "
                        "take the carried position `%s` back by one on the way to "
                        "the next round (net change after the deletion: %s, must be "
                        "0 where a kept element gives +1): the next relative bisect "
                        "search starts beyond the sorted position and the following "
                        "insertion lands out of order"
                        % (caller.key, recv, a.id,
                           "/".join("%+d" % x if isinstance(x, int) else str(x)
                                    for x in sorted(net, key=str))))
    if checked == 0:
        return True, "no caller passes an explicit position"
    return True, "callers compute the position by bisect_left"


def _nonexistence_guarded(ctx, caller, call, recv_text, coord_text):
    """The call is control-dependent on a test that `coord` is absent."""
    st = enclosing_stmt(call)
    for test, pol in atomic_guards(st):
        t = pat.inline(ctx, caller, test, depth=4).replace(" ", "")
        c = coord_text.replace(" ", "")
        # not X._coordExists(c, idx)
        if not pol and t.startswith("%s._coordExists(%s," % (recv_text, c)):
            return True
        # X.getPayload(c, allocate=False ...) is None
        if t.startswith("%s.getPayload(%s," % (recv_text, c)) and \
                "allocate=False" in t:
            if pol and t.endswith("isNone"):
                return True
            if not pol and t.endswith("isnotNone"):
                return True
    return False


def r4_order(ctx, f, ms):
    coords_ms = [m for m in ms if m.attr == "coords"]
    for m in coords_ms:
        if m.kind in ("delitem", "call:clear", "call:pop", "call:remove"):
            ctx.ok("C01.R4", f, m.node, "(e) deletion preserves order")
            continue
        if m.kind == "rebind":
            _r4_rebind(ctx, f, m)
            continue
        if _is_fresh_local(ctx, f, m):
            ctx.ok("C01.R4", f, m.node, "(f) raw append to a fiber constructed "
                   "in this function; ordering delegated to the producer")
            continue
        if m.kind == "call:insert":
            _r4_insert(ctx, f, m)
        elif m.kind in ("call:append", "call:extend"):
            _r4_append(ctx, f, m)
        elif m.kind == "setitem":
            _r4_setitem(ctx, f, m)
        else:
            ctx.bad("C01.R4", f, m.node, "unclassified write kind %s to "
                    "coords: no order-preserving idiom recognised" % m.kind)


def _is_fresh_local(ctx, f, m):
    if not isinstance(m.base, ast.Name):
        return False
    v = pat.single_def(ctx, f, m.base)
    if v is None or not isinstance(v, ast.Call):
        return False
    tg = ctx.ty.resolve(f, v)
    return tg.kind == "ctor" and tg.cls.name == "Fiber"


def _r4_rebind(ctx, f, m):
    if isinstance(m.value, ast.List) and not m.value.elts:
        ctx.ok("C01.R4", f, m.node, "(e) rebinding to the empty list")
        return
    if f.name == "__init__" and f.cls is not None and f.cls.name == "Fiber":
        g = cfg_of(f, assert_edges=False)
        chk = [n for n in f.own_nodes() if isinstance(n, ast.Call) and
               text(n.func) in ("self._checkOrdered", "self._checkUnique")]
        names = {text(c.func) for c in chk if
                 g.postdominates(enclosing_stmt(c), m.stmt)}
        if names == {"self._checkOrdered", "self._checkUnique"}:
            ctx.ok("C01.R4", f, m.node, "(g) constructor: _checkOrdered and "
                   "_checkUnique follow on every path")
        else:
            ctx.bad("C01.R4", f, m.node, "the constructor no longer runs both "
                    "_checkOrdered() and _checkUnique() after storing the "
                    "coordinates: Fiber([2,1],[..]) or Fiber([1,1],[..]) is "
                    "accepted")
        return
    if _is_joint_resort(ctx, f, m.stmt):
        # (d) the re-sort must be reached whenever the rewrite was not monotone
        test = None
        for t, pol in guards(m.stmt):
            if pol and "_ordered" in text(t) and test is None:
                test = t
        conj = set()
        if test is not None:
            conj = {(text(t).replace(" ", ""), pol)
                    for t, pol in pat.conjuncts(test)}
        t0 = m.stmt.targets[0]
        base_txt = text(t0.elts[0])[:-7] if isinstance(t0, (ast.Tuple, ast.List)) \
            else text(t0.value)
        fl = [t for t, pol in conj if not pol and t.isidentifier()]
        flag = fl[0] if len(fl) == 1 else None
        # the flag: True before the rewriting loop, and inside it only ever
        # and-ed with a `previous <= new` comparison (once False, it stays
        # False: a descent anywhere in the sequence must reach the re-sort)
        cumulative = False
        if flag is not None:
            asg = [n for n in f.own_nodes()
                   if (isinstance(n, ast.Assign) and len(n.targets) == 1 and
                       text(n.targets[0]) == flag) or
                   (isinstance(n, ast.AugAssign) and text(n.target) == flag)]
            loops = [lp for lp in f.own_nodes() if isinstance(lp, (ast.For, ast.While))]
            inits = [n for n in asg if not any(is_within(n, lp) for lp in loops)]
            upd = [n for n in asg if n not in inits]

            def cum(n):
                if isinstance(n, ast.AugAssign):
                    return isinstance(n.op, ast.BitAnd)
                v = n.value
                if isinstance(v, ast.Constant) and v.value is False:
                    return True
                return isinstance(v, ast.BoolOp) and isinstance(v.op, ast.And) and \
                    any(isinstance(x, ast.Name) and x.id == flag for x in v.values) and \
                    any(isinstance(c, ast.Compare) and isinstance(c.ops[0], (ast.LtE, ast.Lt))
                        for x in v.values for c in ast.walk(x))
            cumulative = len(inits) == 1 and isinstance(inits[0], ast.Assign) and \
                text(inits[0].value) == "True" and bool(upd) and all(cum(n) for n in upd)
        if flag is not None and cumulative and \
                conj == {(base_txt + "._ordered", True), (flag, False)}:
            ctx.ok("C01.R4", f, m.node, "(d) joint re-sort of the zipped pair "
                   "under `%s`; `%s` accumulates `previous <= new` over the "
                   "whole rewrite" % (text(test), flag))
        elif flag is not None and not cumulative and \
                conj == {(base_txt + "._ordered", True), (flag, False)}:
            ctx.bad("C01.R4", f, m.node, "the flag `%s` that decides whether "
                    "the rewritten coordinates are re-sorted does not "
                    "accumulate over the loop (it must start True and only be "
                    "and-ed with `previous <= new`): a descent in the middle "
                    "of the sequence followed by an ascending tail skips the "
                    "re-sort and leaves an ordered fiber unsorted" % flag,
                    text_="re-sort flag accumulates")
        else:
            ctx.bad("C01.R4", f, m.node, "the joint re-sort after rewriting "
                    "coordinates is not reached whenever the rewrite was "
                    "non-monotone on an ordered fiber")
        return
    ctx.bad("C01.R4", f, m.node, "coords is rebound to `%s`, which is neither "
            "empty nor the joint re-sort" % text(m.value)[:60])


def _r4_insert(ctx, f, m):
    if len(m.args) < 2:
        ctx.bad("C01.R4", f, m.node, "insert without a coordinate")
        return
    coord = m.args[1]
    coord_text = text(coord)
    if f.name == "insertOrLookup":
        _r4_linear_search(ctx, f, m, need_equal_test=True, op=">=")
        return
    if f.name == "insert" and f.cls is not None:
        _r4_linear_search(ctx, f, m, need_equal_test=True, op=">")
        return
    ok, why = _sorted_pos(ctx, f, m, coord_text)
    if not ok:
        ctx.bad("C01.R4", f, m.node, "(a) sorted insertion: %s -- the new "
                "coordinate can land out of order" % why)
        return
    # existence guard at every caller of this inserting function
    cparam = None
    if isinstance(coord, ast.Name) and coord.id in f.params:
        cparam = coord.id
    sites = ctx.eff.call_sites.get(f, []) if cparam else []
    bad = []
    for caller, call, tg in sites:
        recv = text(call.func.value) if isinstance(call.func, ast.Attribute) else ""
        idx = f.params.index(cparam) - 1
        carg = pat.kwarg(call, cparam, idx)
        if carg is None:
            bad.append((caller, call, "does not pass the coordinate"))
            continue
        if not _nonexistence_guarded(ctx, caller, call, recv, text(carg)):
            bad.append((caller, call, "is not guarded by a test that `%s` is "
                        "absent from %s" % (text(carg), recv)))
    if cparam and not sites:
        raise AnalysisError("C01.R4: no caller of %s found" % f.key)
    for caller, call, why2 in bad:
        ctx.bad("C01.R4", caller, call, "(a) sorted insertion: call of %s %s: "
                "inserting an already present coordinate creates a duplicate"
                % (f.name, why2))
    if not bad:
        ctx.ok("C01.R4", f, m.node, "(a) %s; all %d callers test non-existence "
               "first" % (why, len(sites)))
        for caller, call, tg in sites:
            ctx.ok("C01.R4", caller, call, "(a) insertion guarded by a "
                   "non-existence test of the same coordinate")


def _r4_linear_search(ctx, f, m, need_equal_test, op):
    """insertOrLookup idiom: first index with coords[i] >= c, equality test
    before the insert, append when the search is exhausted."""
    pos = m.args[0]
    coord_text = text(m.args[1])
    v = pat.single_def(ctx, f, pos) if isinstance(pos, ast.Name) else None
    src = text(v).replace(" ", "") if v is not None else ""
    base = text(m.base)
    first_ge = False
    if isinstance(v, ast.Call) and text(v.func) == "next" and v.args and \
            isinstance(v.args[0], ast.GeneratorExp) and len(v.args[0].generators) == 1:
        gen = v.args[0].generators[0]
        if text(gen.iter).replace(" ", "") == "enumerate(%s.coords)" % base and \
                isinstance(gen.target, ast.Tuple) and len(gen.target.elts) == 2 and \
                len(gen.ifs) == 1:
            valv = text(gen.target.elts[1])
            first_ge = pat.catom(None, f, gen.ifs[0], True, False) == \
                pat.A("<=", coord_text, valv)
    eq = False
    for n in f.own_nodes():
        if isinstance(n, ast.If) and block_always_leaves(n.body):
            p = pat.cmp_parts(ctx, f, n.test)
            if p and p[0] == "==" and coord_text in (p[1], p[2]) and \
                    ("%s.coords[" % base) in (p[1] + p[2]):
                if cfg_of(f).dominates(n, m.stmt):
                    eq = True
    if first_ge and eq:
        ctx.ok("C01.R4", f, m.node, "(a) linear search for the first "
               "coordinate >= c with an equality test before the insert")
    else:
        ctx.bad("C01.R4", f, m.node,
                "insertion position is the first coordinate %s c with%s "
                "existence test: inserting a coordinate that is already "
                "present stores it twice (e.g. Fiber([1,2],[3,4]).%s(1, 9) "
                "gives coords [1,1,2])"
                % (">" if not first_ge else ">=", "" if eq else "out an",
                   f.name))


def _precedes(a, b):
    """Statement `a` (or the block holding it) finishes before statement `b`
    starts: some enclosing statement of `a` is an earlier sibling of an
    enclosing statement (or `b` itself) of `b`."""
    chain_b = []
    n = b
    while n is not None and not isinstance(n, (ast.FunctionDef, ast.AsyncFunctionDef)):
        if isinstance(n, ast.stmt):
            chain_b.append(n)
        n = getattr(n, "_parent", None)
    n = a
    while n is not None and not isinstance(n, (ast.FunctionDef, ast.AsyncFunctionDef)):
        if isinstance(n, ast.stmt):
            pa = parent_block(n)
            for nb in chain_b:
                pb = parent_block(nb)
                if pa is not None and pb is not None and pa[0] is pb[0] and pa[1] < pb[1]:
                    return True
        n = getattr(n, "_parent", None)
    return False


def _mono_guard(ctx, f, m, first_new):
    """Some assertion that ends before the write fails exactly when
    `X._ordered and X.maxCoord() is not None and not X.maxCoord() < <new>`:
    the failing condition (guards of the assert and its negated test, in
    disjunctive normal form over canonical atoms) is that one clause,
    however the three literals are spread over `if` tests and the asserted
    expression."""
    base = text(m.base)
    mc = "%s.maxCoord()" % base
    new = first_new.replace(" ", "")
    wants = [frozenset([("truth", o, True), pat.A("is not", mc, "None"),
                        pat.A("<=", new, mc)])
             for o in ("%s._ordered" % base, "%s.isOrdered()" % base)]
    seen = []
    # what is known at the write anyway (conditions shared by every way of
    # reaching it) is not something the assertion has to establish
    gw = pat.guard_dnf(ctx, f, m.stmt, asserts=False, inline_=True) or [frozenset()]
    common = frozenset.intersection(*gw) if gw else frozenset()
    for st in f.own_nodes():
        test = st.test if isinstance(st, ast.Assert) else None
        if test is None and isinstance(st, ast.Expr):
            # the assert may live in a one-assert checking method
            test = pat.checker_call(ctx, f, st.value)
        if test is None or not _precedes(st, m.stmt):
            continue
        g = pat.guard_dnf(ctx, f, st, asserts=False, inline_=True)
        neg = pat.cdnf(ctx, f, test, False, inline_=True)
        if g is None or neg is None:
            continue
        fail = {(a | b) - common for a in g for b in neg}
        if len(fail) == 1 and next(iter(fail)) in [w - common for w in wants]:
            return True, text(test)
        if any(mc in x for c in fail for a in c for x in a[1:] if isinstance(x, str)):
            seen.append(text(test))
    if seen:
        return False, ("the monotonicity assert is `%s`, which does not fail exactly "
                       "when the fiber is ordered, has a maximum and that maximum "
                       "is not below %s" % (seen[0], first_new))
    return False, "no assertion `%s._ordered implies maxCoord() is None or maxCoord() < %s` before the write" % (base, first_new)


def _r4_append(ctx, f, m):
    if f.name in ("insertOrLookup", "insert") and f.cls is not None:
        # append leg of the linear search: reached only when no coordinate
        # is >= / > the new one
        inside_handler = any(isinstance(a, ast.ExceptHandler) and
                             text(a.type) == "StopIteration"
                             for a in _ancestors(m.stmt))
        if inside_handler:
            ctx.ok("C01.R4", f, m.node, "(a) append when the linear search "
                   "is exhausted")
        else:
            ctx.bad("C01.R4", f, m.node, "append outside the search-exhausted leg")
        return
    if m.kind == "call:append":
        new = text(m.args[0]) if m.args else ""
    else:
        a = m.args[0] if m.args else None
        if not (isinstance(a, ast.Attribute) and a.attr == "coords"):
            ctx.bad("C01.R4", f, m.node, "extend with something that is not "
                    "another fiber's coordinate list")
            return
        new = text(a) + "[0]"
    ok, why = _mono_guard(ctx, f, m, new)
    if ok:
        ctx.ok("C01.R4", f, m.node, "(b) monotone %s guarded by `%s`"
               % (m.kind[5:], why))
    else:
        ctx.bad("C01.R4", f, m.node, "(b) monotone append: %s -- a coordinate "
                "not above the current maximum is appended to an ordered fiber"
                % why)


def _ancestors(n):
    from ..cfg import ancestors
    return ancestors(n)


def _top_if(node):
    """Outermost `if` statement containing `node` (itself if none)."""
    top = node
    n = node
    while getattr(n, "_parent", None) is not None and \
            not isinstance(n._parent, (ast.FunctionDef, ast.AsyncFunctionDef)):
        n = n._parent
        if isinstance(n, ast.If):
            top = n
    return top


def _r4_setitem(ctx, f, m):
    base = text(m.base)
    pos = pat.inline(ctx, f, m.args[0])
    if f.name == "__setitem__":
        new = pat.inline(ctx, f, m.value)
        want = {("<=", new, "%s.coords[%s - 1]" % (base, pos)),
                ("<=", "%s.coords[%s + 1]" % (base, pos), new)}
        got = set()
        from ..cfg import atomic_guards
        g = cfg_of(f)
        # comparisons under which a `raise` guarded by `_ordered` fires on
        # the way to the store (whatever if / elif / else shape holds them)
        for r in f.own_nodes():
            if not isinstance(r, ast.Raise) or not g.can_reach(
                    _top_if(r), m.stmt):
                continue
            ags = list(atomic_guards(r, asserts=False))
            if not any("_ordered" in text(t) and pol for t, pol in ags):
                continue
            for t, pol in ags:
                if not pol:
                    continue
                # a disjunction of neighbour tests may share one raise
                for disj in (pat.dnf(t, True) or []):
                    for atxt, apol in disj:
                        try:
                            ae = ast.parse(atxt, mode="eval").body
                        except SyntaxError:
                            continue
                        p = pat.cmp_parts(ctx, f, ae, apol)
                        if p:
                            got.add((p[0], p[1].replace(" ", ""), p[2].replace(" ", "")))
        # the neighbours of position p are p - 1 and p + 1 only for p >= 0: a
        # negative position (legal for the list store) must have been turned
        # into the real one, or rejected, before the tests run
        pv = m.args[0]
        nonneg = False
        if isinstance(pv, ast.Name):
            for n in f.own_nodes():
                if isinstance(n, ast.If) and g.dominates(n, m.stmt):
                    a_ = pat.catoms(ctx, f, n.test, True, False)
                    if pat.A("<", pv.id, "0") in a_:
                        for b in n.body:
                            if isinstance(b, ast.AugAssign) and text(b.target) == pv.id and \
                                    isinstance(b.op, ast.Add) and \
                                    text(b.value).replace(" ", "") in (
                                        "len(%s.coords)" % base, "len(%s)" % base,
                                        "len(%s.payloads)" % base):
                                nonneg = True
                            if isinstance(b, ast.Raise):
                                nonneg = True
        if nonneg:
            ctx.ok("C01.R4", f, m.node, "(c) a negative position is normalised / "
                   "rejected before the neighbour tests", text_="setitem position non-negative")
        else:
            ctx.bad("C01.R4", f, m.node, "(c) guarded replace: the neighbour tests "
                    "look at `%s - 1` and `%s + 1`, which are the neighbours only "
                    "of a non-negative position, but a negative position reaches "
                    "the list store unchanged: Fiber([2,5,8],[1,2,3])[-1] = "
                    "CoordPayload(1, 9) is accepted and leaves coords [2, 5, 1]"
                    % (pos, pos), text_="setitem position non-negative")
        want = {(o, a.replace(" ", ""), b.replace(" ", "")) for o, a, b in want}
        missing = want - got
        if not missing:
            ctx.ok("C01.R4", f, m.node, "(c) replace guarded by both "
                   "neighbour comparisons that raise CoordinateError")
        else:
            ctx.bad("C01.R4", f, m.node,
                    "(c) guarded replace: missing neighbour test(s) %s before "
                    "`%s`: assigning a coordinate equal to / beyond a "
                    "neighbour is accepted and the fiber is no longer strictly "
                    "increasing" % (sorted("%s %s %s" % (a, o, b) for o, a, b in
                                           missing), construct(m.stmt)))
        return
    if f.name == "updateCoords":
        # (d) element-wise rewrite; must be followed by the guarded re-sort
        resort = [n for n in f.own_nodes() if isinstance(n, ast.Assign) and
                  _is_joint_resort(ctx, f, n)]
        g = cfg_of(f)
        if resort and g.can_reach(m.stmt, resort[0]):
            ctx.ok("C01.R4", f, m.node, "(d) element-wise rewrite followed by "
                   "the joint re-sort")
        else:
            ctx.bad("C01.R4", f, m.node, "(d) coordinates are rewritten in "
                    "place but no joint re-sort of (coords, payloads) follows: "
                    "a non-monotone callback leaves the fiber unsorted")
        return
    ctx.bad("C01.R4", f, m.node, "coordinate overwritten at `%s` without a "
            "recognised order-preserving idiom" % construct(m.stmt))


# ---------------------------------------------------------------------------
def r4_helpers(ctx):
    # _coord2pos: bisect_left / first index with coords[i] >= coord
    f = ctx.method("Fiber", "_coord2pos")
    found = 0
    for n in f.own_nodes():
        if isinstance(n, ast.Call) and text(n.func).startswith("bisect."):
            found += 1
            if text(n.func) == "bisect.bisect_left":
                ctx.ok("C01.R4", f, n, "_coord2pos uses bisect_left")
            else:
                ctx.bad("C01.R4", f, n, "_coord2pos uses %s: the position of "
                        "an existing coordinate is one past it, so lookups "
                        "miss present coordinates and insertion duplicates them"
                        % text(n.func))
    ctx.floor("C01.R4", found, 1, "bisect call in _coord2pos")
    lin = 0
    cparam = f.params[1]
    for lp in f.own_nodes():
        if not (isinstance(lp, ast.For) and isinstance(lp.target, ast.Name)):
            continue
        iv = lp.target.id
        for n in lp.body:
            if not (isinstance(n, ast.If) and any(
                    isinstance(b, ast.Break) or
                    (isinstance(b, ast.Return) and text(b.value) == iv)
                    for b in n.body)):
                continue
            a = pat.catom(ctx, f, n.test, True, False)
            if a[0] == "truth" or not any(x.endswith("[%s]" % iv) for x in a[1:]):
                continue
            lin += 1
            elem = [x for x in a[1:] if x.endswith("[%s]" % iv)][0]
            gs_ = pat.catoms_of_guards(ctx, f, n)
            ordered = pat.T("%s._ordered" % f.params[0]) in gs_
            if not ordered and pat.T("%s._ordered" % f.params[0], False) not in gs_:
                raise AnalysisError("C01.R4: cannot tell whether the linear search "
                                    "at line %d of _coord2pos is the ordered or the "
                                    "unordered one" % n.lineno)
            expect = pat.A("<=", cparam, elem) if ordered else pat.A("==", elem, cparam)
            if a == expect or (a == pat.A("==", elem, cparam) and not ordered):
                ctx.ok("C01.R4", f, n, "linear search stops at the first "
                       "coordinate %s the target" % (">=" if ordered else "=="))
            else:
                ctx.bad("C01.R4", f, n, "start_pos search in _coord2pos "
                        "stops at `%s` instead of the first coordinate >= "
                        "the target" % text(n.test))
    ctx.floor("C01.R4", lin, 1, "linear search in _coord2pos")
    # _coordExists
    f = ctx.method("Fiber", "_coordExists")
    rs = pat.returns(f)
    ps = f.params
    okx = False
    if len(rs) == 1 and len(ps) >= 3:
        want = {pat.A("<", ps[2], "len(%s.coords)" % ps[0]),
                pat.A("==", "%s.coords[%s]" % (ps[0], ps[2]), ps[1])}
        okx = pat.catoms(ctx, f, rs[0].value) == want
    if okx:
        ctx.ok("C01.R4", f, pat.returns(f)[0], "_coordExists tests bound and equality")
    else:
        ctx.bad("C01.R4", f, f.node, "_coordExists is no longer `pos < "
                "len(coords) and coords[pos] == coord`",
                text_="def _coordExists(self, coord, pos)")
    # maxCoord
    f = ctx.method("Fiber", "maxCoord")
    ok = False
    for r in pat.returns(f):
        if text(r.value) == "self.coords[-1]" and any(
                "_ordered" in text(t) and pol for t, pol in guards(r)):
            ok = True
    if ok:
        ctx.ok("C01.R4", f, f.node, "maxCoord is the last coordinate of an "
               "ordered fiber", text_="def maxCoord(self)")
    else:
        ctx.bad("C01.R4", f, f.node, "maxCoord no longer returns coords[-1] "
                "for ordered fibers", text_="def maxCoord(self)")
    # constructor checks
    f = ctx.method("Fiber", "_checkOrdered")
    good = False
    for n in f.own_nodes():
        if isinstance(n, ast.If):
            p = pat.cmp_parts(ctx, f, n.test)
            if p and p[0] == "<=" and any(
                    isinstance(b, ast.Assert) and isinstance(b.test, ast.Constant)
                    and not b.test.value for b in n.body) or (
                    p and p[0] == "<=" and any(isinstance(b, ast.Raise) for b in n.body)):
                good = True
                ctx.ok("C01.R4", f, n, "_checkOrdered rejects c <= previous")
    if not good:
        ctx.bad("C01.R4", f, f.node, "_checkOrdered no longer rejects a "
                "coordinate <= its predecessor (equal neighbours slip through)",
                text_="def _checkOrdered(self)")
    f = ctx.method("Fiber", "_checkUnique")
    good = False
    for n in f.own_nodes():
        if isinstance(n, ast.If):
            p = pat.cmp_parts(ctx, f, n.test)
            if p and p[0] == "==" and any(isinstance(b, (ast.Assert, ast.Raise))
                                          for b in n.body):
                good = True
                ctx.ok("C01.R4", f, n, "_checkUnique rejects repeated coordinates")
    if not good:
        ctx.bad("C01.R4", f, f.node, "_checkUnique no longer rejects repeats",
                text_="def _checkUnique(self)")


# ---------------------------------------------------------------------------
def r5_reject_before_write(ctx, by_func):
    for cls, name in (("Fiber", "__setitem__"), ("Fiber", "append"),
                      ("Fiber", "extend")):
        f = ctx.method(cls, name)
        ms = by_func.get(f, [])
        g = cfg_of(f)
        rejects = [n for n in g.stmts if isinstance(n, ast.Raise) or
                   (isinstance(n, ast.Assert) and "isLazy" not in text(n.test)) or
                   (isinstance(n, ast.Expr) and
                    pat.checker_call(ctx, f, n.value) is not None)]
        ctx.require(rejects, "C01.R5: no rejecting statement found in %s" % f.key)
        for m in ms:
            late = [r for r in rejects if g.can_reach(m.stmt, r)]
            if late:
                ctx.bad("C01.R5", f, m.node,
                        "a write to %s precedes the rejection `%s`: an "
                        "operation rejected for violating coordinate order "
                        "leaves the tree modified"
                        % (m.attr, construct(late[0])))
            else:
                ctx.ok("C01.R5", f, m.node, "no rejection is reachable after "
                       "this write")
