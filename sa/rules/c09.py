"""C09 -- rank transforms move every point to its image and nothing else
(partial: traversal completeness, true positions, style-table agreement,
raw extraction, result construction)."""

import ast

from ..model import text, AnalysisError, construct
from ..cfg import block_always_leaves, guards, enclosing_stmt, is_within, \
    parent_block
from ..sites import field_mutations, iter_kind, RAW, FILTERED, DENSE, LAZY
from .. import pat

EXPLANATION = (
    "Decided clauses: (R1) no loop in fibertree/ leaves on every path "
    "through its body (a descent loop that returns after the first "
    "sub-fiber); (R2) every element store into coords/payloads inside a "
    "loop addresses a true position of the same fiber (index bound by "
    "enumerate/range over the raw lists, never an ordinal of a "
    "default-skipping iteration); (R3) the coordinate styles {tuple, pair, "
    "absolute, relative, linear} are handled by all four dispatch chains "
    "(_flattenCoords, shape and active range in _mergeRanksHelper, "
    "_flattenRankIdsShape) with equal key sets; (R4) swizzleRanks extracts "
    "with a raw zip(coords, payloads) DFS, permutes all swizzled coordinates "
    "through guide = old_rank_ids.index(new id), rebuilds ascending through "
    "Fiber.append; Fiber.swapRanks = flatten(pair) - sort on reversed pair - "
    "unflatten; the rebuild opens a sub-fiber depending on the whole prefix; "
    "_mergeRanksHelper pairs self.coords with a children list that has one "
    "entry per stored payload; (R5) every transform returns Tensor.fromFiber(...) (or a "
    "deep copy).  Coordinate images, inverse round trips and merge "
    "reduction values are not decided.")
RULE = ("one obligation per loop of fibertree/ (R1), per indexed store "
        "(R2), per style chain (R3), per extraction/rebuild clause (R4), per "
        "transform (R5)")

STYLES = {"tuple", "pair", "absolute", "relative", "linear"}


def run(ctx):
    ctx.guard(r1)
    ctx.guard(r2)
    ctx.guard(r3)
    ctx.guard(r4)
    ctx.guard(r5)
    ctx.assume("merge_fn / trans_fn callbacks are pure")


def _once_loops(nodes):
    out = []
    for n in nodes:
        if isinstance(n, (ast.For, ast.While)) and n.body and \
                block_always_leaves(pat.real_stmts(n.body)):
            # `continue` keeps the loop going
            last = pat.real_stmts(n.body)
            if _leaves_loop(last):
                out.append(n)
    return out


def _leaves_loop(stmts):
    """Every path through `stmts` leaves the *loop* (return/raise/break)."""
    for st in stmts:
        if isinstance(st, (ast.Return, ast.Raise, ast.Break)):
            return True
        if isinstance(st, ast.Continue):
            return False
        if isinstance(st, ast.If) and st.orelse and \
                _leaves_loop(st.body) and _leaves_loop(st.orelse):
            return True
    return False


def r1(ctx):
    # sentinel: the rule must match its own positive example on every run
    import os
    sp = os.path.join(os.path.dirname(os.path.dirname(__file__)), "sentinels",
                      "once_loop.py")
    with open(sp) as fh:
        tree = ast.parse(fh.read())
    hits = _once_loops(ast.walk(tree))
    if len(hits) != 1:
        raise AnalysisError("C09.R1: sentinel example not matched (%d hits)"
                            % len(hits))
    n = 0
    for f in ctx.prog.funcs.values():
        if f.module.rel.startswith(("codec/", "notebook/")):
            continue
        ctx.consulted.add(f.module.rel)
        loops = [x for x in f.own_nodes() if isinstance(x, (ast.For, ast.While))]
        once = set(map(id, _once_loops(loops)))
        for lp in loops:
            n += 1
            if id(lp) in once:
                if _first_match_idiom(lp):
                    ctx.ok("C09.R1", f, lp, "search loop returning the first "
                           "match (exit is the loop's purpose)")
                    continue
                ctx.bad("C09.R1", f, lp,
                        "every path through the body of this loop leaves it: "
                        "only the first element is processed.  In a descent "
                        "loop (`for p in self.payloads: p.<op>(...)`) only the "
                        "first sub-fiber is transformed")
            else:
                ctx.ok("C09.R1", f, lp, "loop body can execute more than once")
    ctx.floor("C09.R1", n, 150, "loops in fibertree/")


def _first_match_idiom(lp):
    """`for x in xs: return <expr without call>` -- picking the first element
    is the loop's purpose (no sub-fiber recursion in the body)."""
    body = pat.real_stmts(lp.body)
    if len(body) == 1 and isinstance(body[0], (ast.Return, ast.Break)):
        v = getattr(body[0], "value", None)
        return v is None or not any(isinstance(x, ast.Call) for x in ast.walk(v))
    return False


def r2(ctx):
    n = 0
    for f in ctx.prog.funcs.values():
        if not f.module.rel.startswith("core/"):
            continue
        for m in field_mutations(ctx, f, {"coords", "payloads"}):
            if m.kind not in ("setitem", "augitem", "delitem"):
                continue
            idx = m.args[0]
            if not isinstance(idx, ast.Name):
                continue
            facts, is_param = ctx.ty.facts_at(f, idx.id, idx)
            loopfacts = [fa for fa in facts if fa.kind == "elem"]
            if not loopfacts:
                continue
            n += 1
            base = text(m.base)
            for fa in loopfacts:
                it = fa.value
                src = it
                if isinstance(it, ast.Call) and text(it.func) == "enumerate" and it.args \
                        and fa.path and fa.path[0] == 0:
                    src = it.args[0]
                    kind, b = iter_kind(ctx, f, src)
                elif isinstance(it, ast.Call) and text(it.func) == "range":
                    kind, b = iter_kind(ctx, f, it)
                else:
                    kind, b = (None, None)
                if kind == RAW and b == base:
                    ctx.ok("C09.R2", f, m.node, "index `%s` enumerates the raw "
                           "lists of %s: a true position" % (idx.id, base))
                else:
                    ctx.bad("C09.R2", f, m.node,
                            "the store `%s` is addressed by `%s`, which counts "
                            "the elements of `%s` (%s iteration): with an "
                            "explicit default or an empty sub-fiber ahead, the "
                            "result for element k lands at position k-1"
                            % (construct(m.stmt), idx.id, text(src),
                               kind or "non-positional"))
    ctx.floor("C09.R2", n, 2, "loop-indexed element stores")


def _style_chains(f, var):
    """For each top-level if-chain of `f` that compares `var` with string
    literals: (first If node, set of literals, has rejecting else)."""
    out = []

    def lits(test):
        s = set()
        for n in ast.walk(test):
            if isinstance(n, ast.Compare) and len(n.ops) == 1 and \
                    isinstance(n.ops[0], ast.Eq):
                l, r = n.left, n.comparators[0]
                if text(l) == var and isinstance(r, ast.Constant) and \
                        isinstance(r.value, str):
                    s.add(r.value)
        return s

    def collect(node):
        """literals of an if/elif chain, following nested chains too"""
        s = set()
        rej = False
        n = node
        while True:
            s |= lits(n.test)
            for b in n.body:
                if isinstance(b, ast.If):
                    s2, r2 = collect(b)
                    s |= s2
            if len(n.orelse) == 1 and isinstance(n.orelse[0], ast.If):
                n = n.orelse[0]
                continue
            for b in n.orelse:
                if isinstance(b, (ast.Assert, ast.Raise)):
                    rej = True
                if isinstance(b, ast.If):
                    s2, r2 = collect(b)
                    s |= s2
            break
        return s, rej

    def scan(stmts):
        for st in stmts:
            if isinstance(st, ast.If):
                s, rej = collect(st)
                if s:
                    out.append((st, s, rej))
                    continue
                scan(st.body)
                scan(st.orelse)
            elif isinstance(st, (ast.For, ast.While, ast.With, ast.Try)):
                scan(getattr(st, "body", []))
                scan(getattr(st, "orelse", []))
    scan(f.body)
    return out


def r3(ctx):
    spec = [("core/fiber.py:Fiber._flattenCoords", "style", 1, "flattened coordinate"),
            ("core/fiber.py:Fiber._mergeRanksHelper", "style", 2,
             "shape / active range of the merged rank"),
            ("core/tensor.py:Tensor._flattenRankIdsShape", "coord_style", 1,
             "tensor shape")]
    for key, var, nchains, what in spec:
        f = ctx.func(key)
        chains = _style_chains(f, var)
        if len(chains) < nchains:
            raise AnalysisError("C09.R3: expected %d style chain(s) in %s, found "
                                "%d" % (nchains, key, len(chains)))
        for st, s, rej in chains:
            if s == STYLES:
                ctx.ok("C09.R3", f, st, "handles all styles %s" % sorted(s))
            else:
                ctx.bad("C09.R3", f, st,
                        "this dispatch chain on `%s` handles %s; missing %s, "
                        "unknown %s: a style accepted elsewhere silently gets "
                        "no %s here (or a typo makes a branch dead)"
                        % (var, sorted(s), sorted(STYLES - s), sorted(s - STYLES),
                           what))
    f = ctx.func("core/fiber.py:Fiber._flattenCoords")
    ch = _style_chains(f, "style")
    if ch and ch[0][2]:
        ctx.ok("C09.R3", f, ch[0][0], "unknown style rejected")
    else:
        ctx.bad("C09.R3", f, f.node, "_flattenCoords no longer rejects an "
                "unknown style", text_="_flattenCoords else")


def _walk(stmts):
    from ..cfg import walk_own
    return walk_own(stmts)


def _names(e):
    return {n.id for n in ast.walk(e) if isinstance(n, ast.Name)}


def _rebuild_prefix(ctx, f):
    """The sorted points are turned back into a tree level by level.  A new
    sub-fiber must be opened at level i as soon as ANY level <= i differs
    from the previous point: the decision has to look at the whole prefix,
    either through a flag carried down the levels (reset per point) or a
    slice comparison."""
    site = None
    for w in [n for n in f.own_nodes() if isinstance(n, ast.While)]:
        for lp in w.body:
            if not isinstance(lp, ast.For):
                continue
            for iff in _walk(lp.body):
                if isinstance(iff, ast.If) and any(
                        isinstance(c, ast.Call) and text(c.func) == "Fiber"
                        and not c.args for c in _walk(iff.body)):
                    site = (w, lp, iff)
    if site is None:
        ctx.bad("C09.R4", f, f.node, "swizzleRanks: the level-by-level rebuild "
                "loop (new Fiber() under a condition inside a for over the "
                "point's coordinates) was not found", text_="swizzle prefix reuse")
        return
    w, lp, iff = site
    deps, todo = set(), [iff.test]
    slices = False
    carried = set()
    body_stores = {}
    for n in _walk(lp.body):
        if isinstance(n, (ast.Assign, ast.AugAssign)):
            tg = n.targets[0] if isinstance(n, ast.Assign) else n.target
            if isinstance(tg, ast.Name):
                body_stores.setdefault(tg.id, []).append(n)
    seen = set()
    while todo:
        e = todo.pop()
        if any(isinstance(x, ast.Slice) for x in ast.walk(e)):
            slices = True
        for nm in _names(e):
            if nm in seen:
                continue
            seen.add(nm)
            for st in body_stores.get(nm, []):
                # carried from level to level: the new value depends on the
                # old one, or the store itself happens only while it holds
                if isinstance(st, ast.AugAssign) or nm in _names(st.value) or any(
                        nm in _names(t) for t, _pol in guards(st, stop=lp)):
                    carried.add(nm)
                todo.append(st.value)
    # a carried flag must be re-initialised for every point (inside the while,
    # before the for) and not inside the for
    ok_flag = False
    for v in carried:
        pre = [st for st in w.body[:w.body.index(lp)] if isinstance(st, ast.Assign)
               and isinstance(st.targets[0], ast.Name) and st.targets[0].id == v]
        if pre:
            ok_flag = True
    if ok_flag or slices:
        ctx.ok("C09.R4", f, iff, "a new sub-fiber is opened depending on the "
               "whole coordinate prefix (%s)" % (
                   "flag %s carried down the levels, reset per point" % sorted(carried)
                   if ok_flag else "slice comparison"),
               text_="swizzle prefix reuse")
    else:
        ctx.bad("C09.R4", f, iff, "swizzleRanks opens a new sub-fiber at level "
                "i from `%s`, which looks at level i only: when a higher "
                "coordinate changes but this one repeats, the point is "
                "appended to the previous sub-tree (points move to the wrong "
                "coordinates; swizzle and its inverse no longer cancel)"
                % text(iff.test), text_="swizzle prefix reuse")


def _modify_root(ctx):
    """Tensor._modifyRoot applies a fiber-level transform at the root or below
    it.  Both legs must forward the caller's keyword arguments (levels,
    coord_style, ...): the rank ids and the shape are computed from them."""
    f = ctx.method("Tensor", "_modifyRoot")
    kw = f.kwarg
    ctx.require(kw, "C09.R4: _modifyRoot no longer takes **kwargs")
    fp = [p for p in f.params[1:3]]
    calls = [c for c in f.own_nodes() if isinstance(c, ast.Call)
             and isinstance(c.func, ast.Name) and c.func.id in fp]
    ctx.require(len(calls) >= 2, "C09.R4: the two transform calls of _modifyRoot "
                "were not found")
    for c in calls:
        fw = any(k.arg is None and text(k.value) == kw for k in c.keywords)
        if fw:
            ctx.ok("C09.R4", f, c, "keyword arguments forwarded",
                   text_="_modifyRoot forwards to %s" % c.func.id)
        else:
            ctx.bad("C09.R4", f, c, "Tensor._modifyRoot calls `%s` without "
                    "**%s: below the root the transform runs with default "
                    "arguments (one level, tuple style) while the rank ids and "
                    "shape are computed for the requested ones -- the result "
                    "is malformed" % (text(c)[:50], kw),
                    text_="_modifyRoot forwards to %s" % c.func.id)


def _modify_root_depth(ctx):
    """The below-the-root leg of Tensor._modifyRoot runs the *Below transform
    on the root: the root is level 0, so the fibers `depth` ranks down are
    reached with depth - 1 (Fiber.updatePayloadsBelow counts from the fiber
    it is called on).  Any other offset transforms the wrong rank while the
    rank ids / shape are computed for the requested one."""
    f = ctx.method("Tensor", "_modifyRoot")
    below = f.params[2] if len(f.params) > 2 else None
    dp = "depth" if "depth" in f.all_param_names() else None
    ctx.require(below and dp, "C09.R4: _modifyRoot(func, funcBelow, depth) signature changed")
    calls = [c for c in f.own_nodes() if isinstance(c, ast.Call)
             and isinstance(c.func, ast.Name) and c.func.id == below]
    ctx.require(calls, "C09.R4: _modifyRoot no longer calls its below-the-root transform")
    from .c18 import poly
    for c in calls:
        d = pat.kwarg(c, "depth", 1)
        pd = poly(ctx, f, d) if d is not None else None
        if pd == {(dp,): 1, (): -1}:
            ctx.ok("C09.R4", f, c, "below the root the transform descends depth - 1 levels",
                   text_="_modifyRoot below depth")
        else:
            ctx.bad("C09.R4", f, c, "Tensor._modifyRoot hands `%s` to the "
                    "below-the-root transform instead of depth - 1: the fibers "
                    "transformed are not those of the requested rank, while the "
                    "rank ids and shape are computed for it"
                    % (text(d) if d is not None else "no depth"),
                    text_="_modifyRoot below depth")
    # the root leg only when depth is 0
    roots = [c for c in f.own_nodes() if isinstance(c, ast.Call)
             and isinstance(c.func, ast.Name) and c.func.id == f.params[1]]
    for c in roots:
        gs = pat.catoms_of_guards(ctx, f, enclosing_stmt(c))
        if pat.A("==", dp, "0") in gs:
            ctx.ok("C09.R4", f, c, "the root itself is transformed only for depth 0",
                   text_="_modifyRoot root depth")
        else:
            ctx.bad("C09.R4", f, c, "Tensor._modifyRoot applies the transform to "
                    "the root although depth may be non-zero",
                    text_="_modifyRoot root depth")


def _below_reaches_structure(ctx):
    """The *Below transforms (swap / flatten / unflatten / split below the
    root) restructure the fibers `depth` levels down through
    Fiber.updatePayloads.  Its walk may leave out a payload only when leaving
    it out cannot leave an un-restructured sub-tree behind: a leaf payload, or
    a sub-fiber without coordinates.  `Payload.isEmpty` is recursive -- a
    sub-fiber whose only descendants are explicit defaults is "empty" but has
    children; skipped, it keeps its old rank structure inside a tree whose
    ranks were re-arranged (Tensor.flattenRanks(depth=1) then fails while it
    registers the fibers, rank lists name the wrong ranks after a swap)."""
    f = ctx.method("Fiber", "updatePayloads")
    def stores(lp_):
        return [x for x in _walk(lp_.body) if isinstance(x, ast.Assign)
                and isinstance(x.targets[0], ast.Subscript)
                and text(x.targets[0].value).endswith(".payloads")]
    loops = [lp for lp in f.own_nodes() if isinstance(lp, ast.For)
             and "payloads" in text(lp.iter) and stores(lp)]
    ctx.require(loops, "C09.R4: the payload walk of Fiber.updatePayloads (the loop "
                "that stores the callback's results) was not found")
    lp = loops[0]
    pv = None
    for n in ast.walk(lp.target):
        if isinstance(n, ast.Name):
            pv = n.id           # last name of the target: the payload
    NEGOP = {"==": "!=", "!=": "==", "<": ">=", "<=": ">", "is": "is not", "is not": "is",
             "in": "not in", "not in": "in"}

    def neg(a):
        if a[0] == "truth":
            return ("truth", a[1], not a[2])
        if a[0] in (">=", ">"):
            return pat.A({">=": "<", ">": "<="}[a[0]], a[1], a[2])
        return pat.A(NEGOP.get(a[0], a[0]), a[1], a[2]) if a[0] in NEGOP else a
    skips = []      # (node, [ways of being skipped])
    for c in [x for x in _walk(lp.body) if isinstance(x, ast.Continue)]:
        skips.append((c, pat.guard_dnf(ctx, f, c, stop=lp) or []))
    if not skips:
        # `if <cond>: payloads[i] = ..` -- skipped whenever a conjunct fails
        for st in stores(lp):
            for w in pat.guard_dnf(ctx, f, st, stop=lp) or []:
                skips.append((st, [frozenset([neg(a)]) for a in w]))
    ctx.require(skips, "C09.R4: Fiber.updatePayloads no longer skips any payload; "
                "the rule about what may be skipped has nothing to look at")
    for c, ways in skips:
        bad = []
        for w in ways:
            childless = any(
                a in w for a in (
                    pat.T("isinstance(%s,Fiber)" % pv, False),
                    pat.A("==", "len(%s.coords)" % pv, "0"),
                    pat.A("==", "len(%s)" % pv, "0"),
                    pat.T("%s.coords" % pv, False)))
            if not childless:
                bad.append(w)
        if bad:
            ctx.bad("C09.R4", f, c, "Fiber.updatePayloads skips a payload when %s, "
                    "which is also true of a sub-fiber that has coordinates but "
                    "only explicit defaults below it: the transforms applied "
                    "\"below\" the root leave such a sub-fiber un-restructured"
                    % sorted(str(a) for a in bad[0]),
                    text_="updatePayloads skip reaches structure")
        else:
            ctx.ok("C09.R4", f, c, "only leaf payloads / childless sub-fibers are skipped",
                   text_="updatePayloads skip reaches structure")


def _swap_guard(ctx):
    """Tensor.swapRanks skips the fiber-level swap only when there is nothing
    to swap: the guard must be existential over the rank's fibers (`not all
    empty` / `any not empty`); a universal guard (`all not empty`) leaves the
    root unswapped as soon as one fiber of the rank is empty."""
    f = ctx.method("Tensor", "swapRanks")
    calls = [c for c in f.own_nodes() if isinstance(c, ast.Call)
             and text(c.func).endswith("_modifyRoot")
             and any("swapRanks" in text(a) for a in c.args)]
    ctx.require(calls, "C09.R4: Tensor.swapRanks no longer swaps through _modifyRoot")
    from ..cfg import guards
    for c in calls:
        gs = [(t, pol) for t, pol in guards(enclosing_stmt(c), asserts=False)]
        verdicts = []
        for t, pol in gs:
            q = t
            neg = not pol
            while isinstance(q, ast.UnaryOp) and isinstance(q.op, ast.Not):
                q, neg = q.operand, not neg
            if not (isinstance(q, ast.Call) and text(q.func) in ("all", "any")
                    and q.args and isinstance(q.args[0], (ast.GeneratorExp, ast.ListComp))):
                continue
            e = q.args[0].elt
            eneg = False
            while isinstance(e, ast.UnaryOp) and isinstance(e.op, ast.Not):
                e, eneg = e.operand, not eneg
            if not (isinstance(e, ast.Call) and isinstance(e.func, ast.Attribute)
                    and e.func.attr == "isEmpty"):
                continue
            # meaning of the guard as a statement about "empty"
            if text(q.func) == "all":
                # all(empty) / all(not empty), possibly negated
                meaning = ("not all empty" if (neg and not eneg) else
                           "all empty" if (not neg and not eneg) else
                           "all non-empty" if (not neg and eneg) else
                           "some empty")
            else:
                meaning = ("some non-empty" if (not neg and eneg) else
                           "some empty" if (not neg and not eneg) else
                           "all empty" if (neg and eneg) else "all non-empty")
            verdicts.append((meaning, t))
        if not gs:
            ctx.ok("C09.R4", f, c, "fiber-level swap is unconditional",
                   text_="swapRanks guard")
        elif verdicts and all(m in ("not all empty", "some non-empty") for m, _ in verdicts) \
                and len(verdicts) == len(gs):
            ctx.ok("C09.R4", f, c, "fiber-level swap skipped only when every "
                   "fiber of the rank is empty", text_="swapRanks guard")
        else:
            ctx.bad("C09.R4", f, c, "Tensor.swapRanks performs the fiber-level "
                    "swap only when `%s` (%s): with one empty fiber in the rank "
                    "next to non-empty ones the ids and shape are exchanged but "
                    "no point moves" % (
                        " and ".join(text(t) for t, _ in gs),
                        ", ".join(m for m, _ in verdicts) or "not an emptiness quantifier"),
                    text_="swapRanks guard")


def _merge_alignment(ctx):
    """_mergeRanksHelper pairs its own coordinates with a list of (already
    merged) children positionally -- `zip(self.coords, children)`.  The
    children list must have exactly one entry per stored payload, in order."""
    f = ctx.method("Fiber", "_mergeRanksHelper")
    zips = [c for c in f.own_nodes() if isinstance(c, ast.Call) and text(c.func) == "zip"
            and len(c.args) == 2 and text(c.args[0]) == "%s.coords" % f.params[0]
            and isinstance(c.args[1], ast.Name)]
    ctx.require(zips, "C09.R4: positional pairing zip(self.coords, <children>) "
                "of _mergeRanksHelper not found")
    own = "%s.payloads" % f.params[0]
    for z in zips:
        b = z.args[1]
        facts, _ = ctx.ty.facts_at(f, b.id, b)
        problems = []
        for fa in facts:
            if fa.kind == "add":
                continue        # the appends are examined with their loop
            v = fa.value if fa.kind == "expr" else None
            if v is not None and text(v) == own:
                continue
            if isinstance(v, ast.ListComp) and len(v.generators) == 1 and \
                    not v.generators[0].ifs and text(v.generators[0].iter) == own:
                continue
            if isinstance(v, ast.List) and not v.elts:
                # filled by a loop over the payloads
                loops = [lp for lp in f.own_nodes() if isinstance(lp, ast.For)
                         and text(lp.iter) == own and any(
                             isinstance(c, ast.Call) and text(c.func) == b.id + ".append"
                             for c in _walk(lp.body))]
                apps = [c for lp in loops for c in _walk(lp.body)
                        if isinstance(c, ast.Call) and text(c.func) == b.id + ".append"]
                jumps = [j for lp in loops for j in _walk(lp.body)
                         if isinstance(j, (ast.Continue, ast.Break))]
                if len(loops) == 1 and len(apps) == 1 and not jumps and any(
                        isinstance(st, ast.Expr) and st.value is apps[0]
                        for st in loops[0].body):
                    continue
                problems.append("filled by a loop that does not append exactly "
                                "once per stored payload (%d append(s), %d "
                                "continue/break)" % (len(apps), len(jumps)))
            else:
                problems.append("defined as `%s`" % (text(v)[:50] if v is not None
                                                     else fa.kind))
        if problems:
            ctx.bad("C09.R4", f, z, "_mergeRanksHelper pairs self.coords "
                    "positionally with `%s`, which is %s: when an element is "
                    "skipped every later child is paired with an earlier "
                    "coordinate (points move, flatten and unflatten no longer "
                    "cancel)" % (b.id, "; ".join(problems)),
                    text_="merge children alignment")
        else:
            ctx.ok("C09.R4", f, z, "children list has one entry per stored "
                   "payload, in order", text_="merge children alignment")


def r4(ctx):
    f = ctx.method("Tensor", "swizzleRanks")
    whiles = [n for n in f.own_nodes() if isinstance(n, ast.While)]
    dfs = None
    for w in whiles:
        wl = text(w.test)        # `while <worklist>:`
        if not isinstance(w.test, ast.Name):
            continue
        for lp in _walk(w.body):
            if isinstance(lp, ast.For) and any(
                    isinstance(c, ast.Call) and text(c.func) == wl + ".append"
                    for c in _walk(lp.body)):
                dfs = lp
    ctx.require(dfs is not None, "C09.R4: swizzleRanks DFS loop not found")
    kind, base = iter_kind(ctx, f, dfs.iter)
    if kind == RAW:
        ctx.ok("C09.R4", f, dfs, "DFS walks the raw (coords, payloads) lists")
    else:
        ctx.bad("C09.R4", f, dfs, "swizzleRanks extracts points with a %s "
                "iteration (`%s`): points under explicit defaults / empty "
                "sub-fibers are lost or shifted"
                % (kind or "non-raw", text(dfs.iter)))
    # guide[i] = old index of the i-th requested rank id
    newp = f.params[1]
    guide = None
    for name, (it, tg, elt, node) in pat.list_maps(f).items():
        if text(it) == newp and isinstance(tg, ast.Name) and \
                isinstance(elt, ast.Call) and isinstance(elt.func, ast.Attribute) and \
                elt.func.attr == "index" and \
                [text(a) for a in elt.args] == [tg.id] and not elt.keywords and \
                pat.inline(ctx, f, elt.func.value).replace(" ", "") == \
                "%s.getRankIds()" % f.params[0]:
            guide = name
    keydef = None
    for n in f.own_nodes():
        if isinstance(n, ast.Assign) and isinstance(n.value, ast.Call) and \
                text(n.value.func) == "tuple" and len(n.value.args) == 1 and \
                isinstance(n.value.args[0], (ast.GeneratorExp, ast.ListComp)):
            ge = n.value.args[0]
            g0 = ge.generators[0]
            if len(ge.generators) == 1 and isinstance(g0.target, ast.Name) and not g0.ifs \
                    and isinstance(ge.elt, ast.Subscript) and \
                    isinstance(ge.elt.slice, ast.Subscript) and guide and \
                    text(ge.elt.slice.value) == guide and \
                    text(ge.elt.slice.slice) == g0.target.id and \
                    isinstance(g0.iter, ast.Call) and text(g0.iter.func) == "range":
                keydef = n
    if guide and keydef is not None:
        ctx.ok("C09.R4", f, keydef, "permuted key built from all swizzled "
               "coordinates through guide = old index of each new rank id",
               text_="swizzle key")
    else:
        ctx.bad("C09.R4", f, keydef if keydef is not None else f.node, "the permuted "
                "coordinate is no longer `tuple(frontier_coords[guide[i]] for i "
                "in range(swiz_len))` with guide[i] = old_rank_ids.index(new id)",
                text_="swizzle key")
    # the list of keys: sorted descending and consumed from the end (or
    # ascending from the front)
    keyvar = text(keydef.targets[0]) if keydef is not None else None
    klist = None
    for c in pat.calls(f, attr="append"):
        if keyvar and c.args and text(c.args[0]) == keyvar and len(c.args) == 1:
            klist = text(c.func.value)
    srt = [c for c in pat.calls(f, attr="sort") if text(c.func.value) == klist]
    pops = [c for c in pat.calls(f, attr="pop") if text(c.func.value) == klist]
    rev = srt and isinstance(pat.kwarg(srt[0], "reverse"), ast.Constant) and \
        pat.kwarg(srt[0], "reverse").value is True
    if rev and pops and not pops[0].args:
        ctx.ok("C09.R4", f, srt[0], "points rebuilt in ascending order "
               "(descending sort consumed from the end)", text_="swizzle order")
    elif srt and not rev and pops and pops[0].args and text(pops[0].args[0]) == "0":
        ctx.ok("C09.R4", f, srt[0], "points rebuilt in ascending order",
               text_="swizzle order")
    else:
        ctx.bad("C09.R4", f, srt[0] if srt else f.node, "the extracted points "
                "are not rebuilt in ascending coordinate order",
                text_="swizzle order")
    apps = [c for c in pat.calls(f, attr="append")
            if isinstance(c.func.value, ast.Subscript) and len(c.args) == 2]
    if len(apps) >= 2:
        ctx.ok("C09.R4", f, apps[0], "rebuild goes through the checked "
               "Fiber.append API")
    else:
        ctx.bad("C09.R4", f, f.node, "the rebuild no longer appends through "
                "Fiber.append", text_="swizzle rebuild")
    cp = [n for n in f.own_nodes() if isinstance(n, ast.Assign) and
          text(n.value).replace(" ", "") in ("copy.deepcopy(self)", "deepcopy(self)")]
    if cp:
        ctx.ok("C09.R4", f, cp[0], "works on a deep copy")
    _rebuild_prefix(ctx, f)
    _merge_alignment(ctx)
    _swap_guard(ctx)
    _modify_root(ctx)
    _modify_root_depth(ctx)
    _below_reaches_structure(ctx)
    n_ = 0
    for mname in ("updateCoords", "updatePayloads", "_mergeRanksHelper", "unflattenRanks"):
        k = pat.check_unit_recursion(ctx, "C09.R4", ctx.method("Fiber", mname),
                                     "depth / levels descent")
        n_ += bool(k)
    ctx.floor("C09.R4", n_, 4, "level-by-level recursive rank transforms")
    # Fiber.swapRanks
    f = ctx.method("Fiber", "swapRanks")
    fl = so = un = False
    fvar = None
    for n in f.own_nodes():
        if isinstance(n, ast.Assign) and isinstance(n.targets[0], ast.Name) and \
                text(n.value).replace(" ", "").replace('"', "'") == \
                "%s.flattenRanks(style='pair')" % f.params[0]:
            fl, fvar = True, n.targets[0].id
    for c in f.own_nodes():
        if isinstance(c, ast.Call) and text(c.func) == "sorted" and len(c.args) == 1 \
                and not c.keywords and isinstance(c.args[0], (ast.ListComp, ast.GeneratorExp)):
            lc_ = c.args[0]
            g0 = lc_.generators[0]
            if len(lc_.generators) == 1 and not g0.ifs and text(g0.iter) == fvar and \
                    isinstance(g0.target, ast.Tuple) and len(g0.target.elts) == 2 and \
                    isinstance(lc_.elt, ast.Tuple) and len(lc_.elt.elts) == 2:
                cv, pv = [text(e) for e in g0.target.elts]
                if text(lc_.elt.elts[0]).replace(" ", "") == "%s[::-1]" % cv and \
                        text(lc_.elt.elts[1]) == pv:
                    so = True
        if isinstance(c, ast.Call) and isinstance(c.func, ast.Attribute) and \
                c.func.attr == "unflattenRanks" and not c.args and not c.keywords:
            un = True
    if fl and so and un:
        ctx.ok("C09.R4", f, f.node, "swap = flatten(pair), sort on the reversed "
               "pair, unflatten", text_="def swapRanks(self)")
    else:
        ctx.bad("C09.R4", f, f.node, "Fiber.swapRanks is no longer flatten"
                "(style='pair') -> sort on the reversed pair -> unflatten "
                "(flatten %s, sort %s, unflatten %s)" % (fl, so, un),
                text_="def swapRanks(self)")


def r5(ctx):
    for name in ("_splitGeneric", "swizzleRanks", "swapRanks", "flattenRanks",
                 "mergeRanks", "unflattenRanks"):
        f = ctx.method("Tensor", name)
        rets = pat.returns(f)
        ok = bool(rets)
        for r in rets:
            v = r.value
            d = pat.single_def(ctx, f, v) if isinstance(v, ast.Name) else v
            t = text(d).replace(" ", "") if d is not None else ""
            if not (t.startswith("Tensor.fromFiber(") or
                    t in ("copy.deepcopy(self)", "deepcopy(self)")):
                ok = False
        if ok:
            ctx.ok("C09.R5", f, rets[-1], "result built by Tensor.fromFiber "
                   "(rank lists rebuilt from the tree, C02.R5)")
        else:
            ctx.bad("C09.R5", f, rets[-1] if rets else f.node, "Tensor.%s does "
                    "not return a tensor built by Tensor.fromFiber: its rank "
                    "lists are not rebuilt from the transformed tree" % name,
                    text_="Tensor.%s result" % name)
