"""C18 -- format footprints add up from the tree exactly (partial: the spec
default table, the fiber formula in polynomial normal form, the
aggregation shape; numeric sums are not decided)."""

import ast

from ..model import text, AnalysisError
from ..cfg import guards, atomic_guards, enclosing_stmt, is_within
from ..effects import STATS_LOCS
from ..sites import iter_kind
from .. import pat

EXPLANATION = (
    "Decided clauses: (R1) missing specification fields are filled with 0 "
    "bits (rhbits, fhbits, cbits, pbits per rank; hbits, pbits of the root), "
    "format 'C' out of {C,U} and layout 'contiguous' out of {contiguous, "
    "interleaved} -- literal extraction from the fill calls; (R2) the fiber "
    "footprint, put into sum-of-products normal form, is fhbits + pbits*n + "
    "cbits*n with n = len(fiber) for a compressed rank and the fiber's shape "
    "otherwise; (R3) rank = rhbits + sum over the raw rank list, tensor = "
    "root + sum over all rank ids, root = hbits + pbits, the sub-tree "
    "traversal adds every popped fiber once and finds children with "
    "iterShape for 'U' and iterOccupancy otherwise, pushing only fiber "
    "payloads, the full-point case is cbits + pbits of the leaf rank; (R4) "
    "the footprint queries are effect-free.")
RULE = "one obligation per default-table entry, formula, aggregation clause"

F = "model/format.py:Format."


def run(ctx):
    ctx.guard(r1)
    ctx.guard(r2)
    ctx.guard(r3)
    ctx.guard(r4)


def r1(ctx):
    f = ctx.func(F + "_checkFillSpec")
    ints = {}
    strs = {}
    for c in f.own_nodes():
        if not isinstance(c, ast.Call):
            continue
        fn = text(c.func)
        if fn == "self._checkFillIntField" and len(c.args) == 2:
            who = "root" if isinstance(c.args[0], ast.Constant) else "rank"
            # a literal, or the variable of a loop over literal field names
            vals = pat.const_values(ctx, f, c.args[1])
            ints.setdefault(who, set()).update(
                vals if vals is not None else [text(c.args[1])])
        elif fn == "self._checkFillStrField" and len(c.args) == 4:
            opts = [e.value for e in c.args[3].elts] if isinstance(
                c.args[3], ast.List) else None
            strs[c.args[1].value if isinstance(c.args[1], ast.Constant) else "?"] = (
                c.args[2].value if isinstance(c.args[2], ast.Constant) else None, opts)
    want_i = {"root": {"hbits", "pbits"}, "rank": {"rhbits", "fhbits", "cbits", "pbits"}}
    if ints == want_i:
        ctx.ok("C18.R1", f, f.node, "integer fields filled: %s" % ints,
               text_="spec integer fields")
    else:
        ctx.bad("C18.R1", f, f.node, "the integer fields filled by default are "
                "%s, expected %s: a missing field is not defaulted (KeyError) "
                "or a wrong one is" % (ints, want_i), text_="spec integer fields")
    want_s = {"format": ("C", ["C", "U"]),
              "layout": ("contiguous", ["contiguous", "interleaved"])}
    if strs == want_s:
        ctx.ok("C18.R1", f, f.node, "format defaults to 'C', layout to "
               "'contiguous'", text_="spec string fields")
    else:
        ctx.bad("C18.R1", f, f.node, "string-field defaults are %s, expected %s"
                % (strs, want_s), text_="spec string fields")
    g = ctx.func(F + "_checkFillIntField")
    fills = [n for n in g.own_nodes() if isinstance(n, ast.Assign)
             and pat.inline(ctx, g, n.targets[0]).replace(" ", "") == "self.spec[rank][field]"]
    missing = {pat.A("not in", "field", "self.spec[rank].keys()"),
               pat.A("not in", "field", "self.spec[rank]")}
    if len(fills) == 1 and isinstance(fills[0].value, ast.Constant) and \
            fills[0].value.value == 0 and \
            pat.catoms_of_guards(ctx, g, fills[0]) & missing:
        ctx.ok("C18.R1", g, fills[0], "a missing integer field becomes 0 bits")
    else:
        ctx.bad("C18.R1", g, g.node, "a missing integer field is no longer "
                "filled with the literal 0 (only when missing)",
                text_="_checkFillIntField fill")
    g = ctx.func(F + "_checkFillStrField")
    fills = [n for n in g.own_nodes() if isinstance(n, ast.Assign)
             and pat.inline(ctx, g, n.targets[0]).replace(" ", "") == "self.spec[rank][field]"]
    if len(fills) == 1 and text(fills[0].value) == "default":
        ctx.ok("C18.R1", g, fills[0], "a missing string field takes the given default")
    else:
        ctx.bad("C18.R1", g, g.node, "a missing string field is no longer "
                "filled with the supplied default", text_="_checkFillStrField fill")


# --- polynomial normal form ------------------------------------------------
def poly(ctx, f, e, depth=0):
    """{monomial (sorted tuple of atom texts): coefficient}"""
    if depth > 8:
        return None
    if isinstance(e, ast.Constant) and isinstance(e.value, (int, float)):
        return {(): e.value}
    if isinstance(e, ast.BinOp) and isinstance(e.op, (ast.Add, ast.Sub)):
        a, b = poly(ctx, f, e.left, depth + 1), poly(ctx, f, e.right, depth + 1)
        if a is None or b is None:
            return None
        out = dict(a)
        sg = 1 if isinstance(e.op, ast.Add) else -1
        for k, v in b.items():
            out[k] = out.get(k, 0) + sg * v
        return {k: v for k, v in out.items() if v}
    if isinstance(e, ast.BinOp) and isinstance(e.op, ast.Mult):
        a, b = poly(ctx, f, e.left, depth + 1), poly(ctx, f, e.right, depth + 1)
        if a is None or b is None:
            return None
        out = {}
        for ka, va in a.items():
            for kb, vb in b.items():
                k = tuple(sorted(ka + kb))
                out[k] = out.get(k, 0) + va * vb
        return {k: v for k, v in out.items() if v}
    if isinstance(e, ast.Name):
        d = pat.single_def(ctx, f, e)
        if d is not None and isinstance(d, (ast.BinOp, ast.Subscript, ast.Name)):
            return poly(ctx, f, d, depth + 1)
        return {(e.id,): 1}
    if isinstance(e, ast.Call) and ctx is not None:
        # a repo helper that only picks a term by a constant argument
        # (`self.getElem(rank, "elem")`): the term it picks
        from .. import symcase

        def consts(t):
            if isinstance(t, ast.Compare) and len(t.ops) == 1 and \
                    isinstance(t.left, ast.Constant) and \
                    isinstance(t.comparators[0], ast.Constant) and \
                    isinstance(t.ops[0], (ast.Eq, ast.NotEq)):
                same = t.left.value == t.comparators[0].value
                return same if isinstance(t.ops[0], ast.Eq) else not same
            return None
        try:
            res = symcase.Evaluator(ctx, consts).inline_call(f, e, {})
        except Exception:
            res = None
        if res is not None:
            return poly(ctx, f, res, depth + 1)
    # a subscripted temporary (`rank_spec['pbits']`) reads as what it holds
    t = pat.inline(ctx, f, e) if isinstance(e, ast.Subscript) else text(e)
    return {(t.replace(" ", "").replace('"', "'"),): 1}


def r2(ctx):
    f = ctx.func(F + "_getFiberFootprint")
    rets = pat.returns(f)
    ctx.require(len(rets) == 1, "C18.R2: _getFiberFootprint must have one return")
    p = poly(ctx, f, rets[0].value)
    S = "self.spec[rank]['%s']"
    want = {(S % "fhbits",): 1,
            tuple(sorted((S % "pbits", "num_elems"))): 1,
            tuple(sorted((S % "cbits", "num_elems"))): 1}
    if p == want:
        ctx.ok("C18.R2", f, rets[0], "footprint = fhbits + (cbits + pbits) * n")
    else:
        ctx.bad("C18.R2", f, rets[0], "the fiber footprint normalises to %s, "
                "not fhbits + pbits*n + cbits*n" % p)
    n_defs = [n for n in f.own_nodes() if isinstance(n, ast.Assign)
              and text(n.targets[0]) == "num_elems"]
    got = {}
    for d in n_defs:
        gs = [(pat.inline(ctx, f, t).replace(" ", "").replace('"', "'"), pol)
              for t, pol in atomic_guards(d)]
        if (S % "format" + "=='C'", True) in gs:
            got["C"] = text(d.value).replace(" ", "")
        elif (S % "format" + "=='C'", False) in gs or \
                (S % "format" + "=='U'", True) in gs:
            got["U"] = text(d.value).replace(" ", "")
    if got == {"C": "len(fiber)", "U": "fiber.getShape(all_ranks=False)"}:
        ctx.ok("C18.R2", f, n_defs[0], "n = occupancy for 'C', shape otherwise")
    else:
        ctx.bad("C18.R2", f, f.node, "the element count is %s; it must be "
                "len(fiber) for a compressed rank and "
                "fiber.getShape(all_ranks=False) for an uncompressed one" % got,
                text_="_getFiberFootprint element count")


def _walk(stmts):
    from ..cfg import walk_own
    return walk_own(stmts)


def _accumulates(f, var):
    """statements `var += X` / `var = var + X`"""
    out = []
    for n in f.own_nodes():
        if isinstance(n, ast.AugAssign) and text(n.target) == var and \
                isinstance(n.op, ast.Add):
            out.append((n, n.value))
    return out


def r3(ctx):
    # rank
    f = ctx.func(F + "getRank")
    rid = f.params[1]
    sf = pat.sum_form(ctx, f)
    ok = sf is not None and \
        pat.inline(ctx, f, sf["start"]).replace(" ", "").replace('"', "'") == \
        "self.spec[%s]['rhbits']" % rid and isinstance(sf["target"], ast.Name) and \
        pat.inline(ctx, f, sf["iter"]).replace(" ", "") in (
            "self.tensor.ranks[self.tensor.getRankIds().index(%s)].getFibers()" % rid,
            "self.tensor.ranks[self.tensor.getRankIds().index(%s)].fibers" % rid) and \
        text(sf["elt"]).replace(" ", "") == "self._getFiberFootprint(%s,%s)" % (
            rid, sf["target"].id)
    if ok:
        ctx.ok("C18.R3", f, sf["node"], "rank = rhbits + sum over every fiber "
               "in the rank list")
    else:
        ctx.bad("C18.R3", f, f.node, "getRank is no longer rhbits + the sum of "
                "_getFiberFootprint over rank.getFibers()", text_="getRank")
    # tensor
    f = ctx.func(F + "getTensor")
    sf = pat.sum_form(ctx, f)
    ok = sf is not None and \
        pat.inline(ctx, f, sf["start"]).replace(" ", "") == "self.getRoot()" and \
        isinstance(sf["target"], ast.Name) and \
        text(sf["iter"]).replace(" ", "") == "self.tensor.getRankIds()" and \
        text(sf["elt"]).replace(" ", "") == "self.getRank(%s)" % sf["target"].id
    if ok:
        ctx.ok("C18.R3", f, sf["node"], "tensor = root + sum over all ranks")
    else:
        ctx.bad("C18.R3", f, f.node, "getTensor is no longer getRoot() + the "
                "sum of getRank over all rank ids", text_="getTensor")
    f = ctx.func(F + "getRoot")
    rets = pat.returns(f)
    p = poly(ctx, f, rets[0].value) if rets else None
    if p == {("self.spec['root']['hbits']",): 1, ("self.spec['root']['pbits']",): 1}:
        ctx.ok("C18.R3", f, rets[0], "root = hbits + pbits")
    else:
        ctx.bad("C18.R3", f, f.node, "getRoot is no longer hbits + pbits of the "
                "root (%s)" % p, text_="getRoot")
    # element footprints by kind: coord -> cbits, payload -> pbits, elem -> both
    # (read case by case on the constant `type_`)
    from .. import symcase
    ge = ctx.func(F + "getElem")
    if len(ge.params) == 3:
        rk, ty = ge.params[1], ge.params[2]

        def consts(t):
            if isinstance(t, ast.Compare) and len(t.ops) == 1 and \
                    isinstance(t.left, ast.Constant) and \
                    isinstance(t.comparators[0], ast.Constant) and \
                    isinstance(t.ops[0], (ast.Eq, ast.NotEq)):
                same = t.left.value == t.comparators[0].value
                return same if isinstance(t.ops[0], ast.Eq) else not same
            return None
        S = "self.spec[%s]['%%s']" % rk
        table = {"coord": {(S % "cbits",): 1}, "payload": {(S % "pbits",): 1},
                 "elem": {(S % "cbits",): 1, (S % "pbits",): 1}}
        for lit, want in table.items():
            outs = symcase.Evaluator(ctx, consts).walk(
                ge, ge.body, {ty: ast.Constant(value=lit)})
            outs = [o for o in outs if o.returned and isinstance(o.ret_stmt, ast.Return)]
            got = poly(ctx, ge, outs[0].ret) if len(outs) == 1 and outs[0].ret is not None \
                and not outs[0].opaque else None
            if got == want:
                ctx.ok("C18.R3", ge, outs[0].ret_stmt, "getElem(rank, %r) = %s"
                       % (lit, " + ".join(sorted(k[0].split("'")[-2] for k in want))),
                       text_="getElem %s" % lit)
            else:
                ctx.bad("C18.R3", ge, ge.node, "getElem(rank, %r) must be %s of the "
                        "rank; it gives %s" % (
                            lit, " + ".join(sorted(k[0].split("'")[-2] for k in want)),
                            got if got is not None else "no single value (the case is "
                            "not reached, or falls through to the assert)"),
                        text_="getElem %s" % lit)
    # sub-tree
    f = ctx.func(F + "getSubTree")
    wl = [n for n in f.own_nodes() if isinstance(n, ast.While)]
    ctx.require(len(wl) == 1, "C18.R3: getSubTree work-list loop not found")
    w = wl[0]
    acc = [a for a in _accumulates(f, "total") if is_within(a[0], w)]
    pops = [c for c in _walk(w.body) if isinstance(c, ast.Call)
            and text(c.func) == "fibers.pop"]
    ok1 = len(acc) == 1 and acc[0][0] in w.body and len(pops) == 1 and \
        text(acc[0][1]).replace(" ", "") == "self._getFiberFootprint(rank,fiber)"
    if ok1:
        ctx.ok("C18.R3", f, acc[0][0], "every popped fiber is added exactly once")
    else:
        ctx.bad("C18.R3", f, w, "the sub-tree traversal does not add the "
                "footprint of every popped fiber exactly once",
                text_="getSubTree accumulate")
    # the sum starts at 0 and the loop runs exactly while fibers are waiting
    if len(acc) == 1 and len(pops) == 1:
        tv = text(acc[0][0].target)
        lst = text(pops[0].func.value).replace(" ", "")
        inits = [n for n in f.own_nodes() if isinstance(n, ast.Assign)
                 and text(n.targets[0]) == tv and not is_within(n, w)]
        ln = "len(%s)" % lst
        nonempty = {("truth", lst, True), ("truth", ln, True), pat.A("<", "0", ln),
                    pat.A("!=", ln, "0"), pat.A("<=", "1", ln)}
        # the pop is reached only with something waiting: the loop test, or an
        # exit in front of it (a loop rotated to test at the bottom)
        at = {pat.catom(ctx, f, t_, pol_, False)
              for t_, pol_ in atomic_guards(enclosing_stmt(pops[0]), asserts=False)} & nonempty
        if len(inits) == 1 and isinstance(inits[0].value, ast.Constant) and \
                inits[0].value.value == 0 and not isinstance(inits[0].value.value, bool) \
                and at:
            ctx.ok("C18.R3", f, w, "sum from 0 while the work list is not empty",
                   text_="getSubTree work list")
        else:
            ctx.bad("C18.R3", f, w, "the sub-tree sum must start at 0 (starts at %s) and "
                    "the traversal run exactly while `%s` is not empty (runs while "
                    "`%s`): the footprint is off by a constant, or the loop pops "
                    "from an empty list" % ([text(i.value) for i in inits] or "nothing",
                                            lst, text(w.test)),
                    text_="getSubTree work list")
    it_defs = [n for n in _walk(w.body) if isinstance(n, ast.Assign)
               and text(n.targets[0]) == "iter_"]
    got = {}
    for d in it_defs:
        gs = [(text(t).replace(" ", "").replace('"', "'"), pol)
              for t, pol in atomic_guards(d, stop=w)]
        # a temporary for self.spec[rank] reads as what it holds
        for t, pol in atomic_guards(d, stop=w):
            if isinstance(t, ast.Compare) and isinstance(t.left, ast.Subscript) and \
                    isinstance(t.left.value, ast.Name):
                base = pat.single_def(ctx, f, t.left.value)
                if base is not None:
                    gs.append((text(t).replace(text(t.left.value), text(base), 1)
                               .replace(" ", "").replace('"', "'"), pol))
        if ("self.spec[rank]['format']=='U'", True) in gs:
            got["U"] = text(d.value).replace(" ", "")
        elif ("self.spec[rank]['format']=='U'", False) in gs or \
                ("self.spec[rank]['format']=='C'", True) in gs:
            got["C"] = text(d.value).replace(" ", "")
    if got == {"U": "fiber.iterShape()", "C": "fiber.iterOccupancy()"}:
        ctx.ok("C18.R3", f, it_defs[0], "children through every coordinate of "
               "the shape for 'U', through stored non-empty elements otherwise")
    else:
        ctx.bad("C18.R3", f, w, "children are enumerated with %s; an "
                "uncompressed rank must use iterShape(), a compressed one "
                "iterOccupancy()" % got, text_="getSubTree traversal kind")
    push = [c for c in _walk(w.body) if isinstance(c, ast.Call)
            and text(c.func) in ("fibers.append", "fibers.extend", "fibers.insert")]
    okp = False
    if len(push) == 1 and text(push[0].func) == "fibers.append" and \
            len(push[0].args) == 1 and isinstance(push[0].args[0], ast.Name):
        # for _, p in <children>: if isinstance(p, Fiber): fibers.append(p)
        pv = push[0].args[0].id
        lp = [a for a in _anc(push[0]) if isinstance(a, ast.For) and is_within(a, w)]
        okp = bool(lp) and isinstance(lp[0].target, ast.Tuple) and \
            len(lp[0].target.elts) == 2 and text(lp[0].target.elts[1]) == pv and \
            text(lp[0].iter) == "iter_" and any(
                (text(t).replace(" ", ""), pol) == ("isinstance(%s,Fiber)" % pv, True)
                for t, pol in atomic_guards(enclosing_stmt(push[0]), stop=w))
    elif len(push) == 1 and text(push[0].func) == "fibers.extend" and \
            len(push[0].args) == 1 and isinstance(
                push[0].args[0], (ast.GeneratorExp, ast.ListComp)):
        # fibers.extend(p for _, p in <children> if isinstance(p, Fiber))
        ge = push[0].args[0]
        g0 = ge.generators[0]
        okp = len(ge.generators) == 1 and isinstance(ge.elt, ast.Name) and \
            isinstance(g0.target, ast.Tuple) and len(g0.target.elts) == 2 and \
            text(g0.target.elts[1]) == ge.elt.id and text(g0.iter) == "iter_" and \
            [text(c).replace(" ", "") for c in g0.ifs] == \
            ["isinstance(%s,Fiber)" % ge.elt.id]
    if okp:
        ctx.ok("C18.R3", f, push[0], "only fiber payloads are pushed")
    else:
        ctx.bad("C18.R3", f, w, "the traversal does not push exactly the fiber "
                "payloads", text_="getSubTree push")
    full = [r for r in pat.returns(f) if not is_within(r, w) and
            any("len(coords)==len(self.tensor.getRankIds())" ==
                pat.inline(ctx, f, t).replace(" ", "") and pol for t, pol in guards(r))]
    p = poly(ctx, f, full[0].value) if full else None
    leaf = "self.spec[self.tensor.getRankIds()[-1]]"
    if p == {(leaf + "['cbits']",): 1, (leaf + "['pbits']",): 1}:
        ctx.ok("C18.R3", f, full[0], "a full point costs cbits + pbits of the leaf rank")
    else:
        ctx.bad("C18.R3", f, f.node, "the full-point case is no longer cbits + "
                "pbits of the leaf rank (%s)" % p, text_="getSubTree full point")


def _anc(n):
    from ..cfg import ancestors
    return list(ancestors(n))


def r4(ctx):
    for name in ("getFiber", "getRank", "getRoot", "getSubTree", "getTensor",
                 "_getFiberFootprint", "_getFiberFromCoords"):
        f = ctx.func(F + name)
        roots = {("p", n) for n in f.all_param_names()}
        ws = [(loc, r, c, w) for loc, r, c, w in ctx.eff.writes(f, tree_only=True)
              if r in roots and loc not in STATS_LOCS]
        certain = [x for x in ws if not x[3].uncertain]
        if certain:
            k = certain[0][3].site()
            ctx.bad("C18.R4", f, f.node, "footprint query %s writes %s via %s"
                    % (name, certain[0][0], certain[0][3].render()),
                    text_="%s -> %s: %s" % (name, k[0].split(":")[-1], k[1]))
        elif ws:
            ctx.errors.append("C18.R4: unresolved receiver decides %s" % f.key)
        else:
            ctx.ok("C18.R4", f, f.node, "effect-free", text_="Format." + name)
