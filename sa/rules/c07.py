"""C07 -- every traversal mode enumerates exactly the slice of content it
names (partial: delegation, Ref<->insert, format dispatch, half-open
clipping, re-iterable lazy fibers).
"""

import ast

from ..model import text, AnalysisError
from ..cfg import cfg_of, guards, atomic_guards, enclosing_stmt, is_within
from ..effects import STATS_LOCS
from .. import pat

EXPLANATION = (
    "Decided clauses: (R1) each of the 18 traversal wrappers returns exactly "
    "one call of its core with the range arguments its definition names "
    "(None/None, the active range, 0..shape) and forwards tick / start_pos; "
    "(R2) non-Ref traversals have an empty tree/rank write effect and read "
    "with getPayload, Ref traversals obtain each payload with getPayloadRef "
    "of the loop coordinate; (R3) default iteration dispatches on the rank "
    "format {C: iterOccupancy, U: iterActiveShape}, format taken from the "
    "owner when owned; (R4) iterRange stops at coord >= end, emits from "
    "coord >= start, skips payloads empty w.r.t. the fiber's default, dense "
    "traversals use range(start, end, step); (R5) every lazy fiber is built "
    "from an iterator class (re-instantiated per traversal through "
    "self.iter()), whose class attributes hold no one-shot iterator.  "
    "Projections, pruning, interval arithmetic and saved-position "
    "equivalence are not decided.")
RULE = ("one obligation per wrapper, per core (effect / accessor), per "
        "dispatch entry, per clipping predicate, per fromIterator site and "
        "lazy class")

I = "core/iterators.py:"


def run(ctx):
    ctx.guard(r1)
    ctx.guard(r2)
    ctx.guard(r3)
    ctx.guard(r4)
    ctx.guard(r5)
    ctx.guard(r6_lazy_default)


def _single_return_call(ctx, f):
    rets = pat.returns(f)
    body = pat.real_stmts(f.body)
    body = [s for s in body if not isinstance(s, ast.Assert)]
    if len(rets) != 1 or len(body) != 1 or not isinstance(rets[0].value, ast.Call):
        return None
    return rets[0].value


def _args(call, names):
    """Positional + keyword arguments of a call as a dict by parameter name
    (`names` = callee's positional parameter names after self)."""
    out = {}
    star = []
    i = 0
    for a in call.args:
        if isinstance(a, ast.Starred):
            star.append(text(a.value).replace(" ", ""))
            continue
        if i < len(names):
            out[names[i]] = text(a).replace(" ", "")
        i += 1
    for kw in call.keywords:
        if kw.arg is None:
            star.append("**" + text(kw.value))
        else:
            out[kw.arg] = text(kw.value).replace(" ", "")
    out["*"] = star
    return out


def r1(ctx):
    shape0 = "self.getShape(all_ranks=False)"
    fshape0 = "fibers[0].getShape(all_ranks=False)"
    table = [
        # wrapper, core, expected args, starred
        ("iterOccupancy", "iterRange", {"start": "None", "end": "None",
                                        "tick": "tick", "start_pos": "start_pos"}, []),
        ("iterActive", "iterRange", {"tick": "tick", "start_pos": "start_pos"},
         ["self.getActive()"]),
        ("iterShape", "iterRangeShape", {"start": "0", "end": shape0, "tick": "tick"}, []),
        ("iterShapeRef", "iterRangeShapeRef", {"start": "0", "end": shape0, "tick": "tick"}, []),
        ("iterActiveShape", "iterRangeShape", {"tick": "tick"}, ["self.getActive()"]),
        ("iterActiveShapeRef", "iterRangeShapeRef", {"tick": "tick"}, ["self.getActive()"]),
    ]
    n = 0
    for w, core, want, star in table:
        f = ctx.func(I + w)
        cf = ctx.func(I + core)
        n += 1
        c = _single_return_call(ctx, f)
        if c is None or not isinstance(c.func, ast.Attribute) or \
                text(c.func.value) != "self" or c.func.attr != core:
            ctx.bad("C07.R1", f, f.node, "%s must return exactly self.%s(...)"
                    % (w, core), text_="def %s" % w)
            continue
        got = _args(c, cf.params[1:])
        gstar = got.pop("*")
        if got == want and gstar == star:
            ctx.ok("C07.R1", f, c, "delegates to %s with %s %s" % (core, want, star))
        else:
            ctx.bad("C07.R1", f, c,
                    "%s delegates to %s with %s %s; its definition requires "
                    "%s %s: the traversal enumerates a different slice "
                    "(wrong bounds, or tick / start_pos not forwarded)"
                    % (w, core, got, gstar, want, star))
    ctable = [
        ("coiterShape", "coiterRangeShape", {"fibers": "fibers", "start": "0", "end": fshape0}, []),
        ("coiterShapeRef", "coiterRangeShapeRef", {"fibers": "fibers", "start": "0", "end": fshape0}, []),
        ("coiterActiveShape", "coiterRangeShape", {"fibers": "fibers"}, ["fibers[0].getActive()"]),
        ("coiterActiveShapeRef", "coiterRangeShapeRef", {"fibers": "fibers"}, ["fibers[0].getActive()"]),
    ]
    for w, core, want, star in ctable:
        f = ctx.func(I + w)
        cf = ctx.func(I + core)
        n += 1
        c = _single_return_call(ctx, f)
        ok = c is not None and isinstance(c.func, ast.Attribute) and \
            c.func.attr == core and text(c.func.value).replace(" ", "") in (
                "type(fibers[0])", "Fiber")
        if c is not None and isinstance(c.func, ast.Name) and c.func.id == core:
            ok = True
        if not ok:
            ctx.bad("C07.R1", f, f.node, "%s must return exactly %s(...)"
                    % (w, core), text_="def %s" % w)
            continue
        got = _args(c, cf.params)
        gstar = got.pop("*")
        if got == want and gstar == star:
            ctx.ok("C07.R1", f, c, "delegates to %s with %s %s" % (core, want, star))
        else:
            ctx.bad("C07.R1", f, c, "%s delegates to %s with %s %s; its "
                    "definition requires %s %s" % (w, core, got, gstar, want, star))
    for w in ("coiterShape", "coiterShapeRef", "coiterActiveShape",
              "coiterActiveShapeRef", "coiterRangeShape", "coiterRangeShapeRef",
              "intersection", "union"):
        f = ctx.method("Fiber", w)
        n += 1
        c = _single_return_call(ctx, f)
        if c is not None and isinstance(c.func, ast.Name) and c.func.id == w and \
                [text(a) for a in c.args] == ["*args"] and \
                [text(k.value) for k in c.keywords if k.arg is None] == ["kwargs"]:
            tgt = ctx.ty.resolve(f, c)
            if tgt.funcs and tgt.funcs[0].key == I + w:
                ctx.ok("C07.R1", f, c, "static wrapper forwards to the module "
                       "function of the same name")
                continue
        ctx.bad("C07.R1", f, f.node, "Fiber.%s must forward (*args, **kwargs) "
                "to iterators.%s" % (w, w), text_="Fiber.%s wrapper" % w)
    ctx.floor("C07.R1", n, 18, "traversal wrappers")


def _tree_writes(ctx, f):
    roots = {("p", n) for n in f.all_param_names()}
    return [(loc, r, c, w) for loc, r, c, w in ctx.eff.writes(f, tree_only=True)
            if r in roots and loc not in STATS_LOCS]


def r2(ctx):
    for name in ("__iter__", "iterOccupancy", "iterActive", "iterRange",
                 "iterShape", "iterActiveShape", "iterRangeShape",
                 "coiterShape", "coiterActiveShape", "coiterRangeShape",
                 "__reversed__"):
        f = ctx.func(I + name)
        ws = _tree_writes(ctx, f)
        certain = [x for x in ws if not x[3].uncertain]
        if ws and not certain:
            ctx.errors.append("C07.R2: unresolved receiver decides %s: %s"
                              % (f.key, ws[0][3].render()))
            continue
        if certain:
            seen = set()
            for loc, r, c, w in certain:
                k = w.site()
                if k in seen:
                    continue
                seen.add(k)
                ctx.bad("C07.R2", f, f.node, "non-reference traversal %s "
                        "writes %s of the fiber it iterates (a dense *read* "
                        "fills the fiber with explicit defaults) via %s"
                        % (name, loc, w.render()),
                        text_="%s -> %s: %s" % (name, k[0].split(":")[-1], k[1]))
        else:
            ctx.ok("C07.R2", f, f.node, "no tree/rank write effect", text_=name)
    # accessor used by the dense cores
    for name, acc, recv in (("iterRangeShape", "getPayload", "self"),
                            ("iterRangeShapeRef", "getPayloadRef", "self")):
        f = ctx.func(I + name)
        _dense_core(ctx, f, name, acc, recv)
    for name, acc in (("coiterRangeShape", "getPayload"),
                      ("coiterRangeShapeRef", "getPayloadRef")):
        f = ctx.func(I + name)
        its = [m for m in ctx.prog.funcs.values() if m.outer is f and m.name == "__iter__"]
        ctx.require(len(its) == 1, "C07.R2: iterator of %s not found" % name)
        _dense_core(ctx, its[0], name, acc, None)


def _dense_core(ctx, f, name, acc, recv):
    loops = [n for n in f.own_nodes() if isinstance(n, ast.For)
             and isinstance(n.iter, ast.Call) and text(n.iter.func) == "range"]
    # one loop -- or copies of it for different modes (metrics on / off), of
    # which a run takes exactly one: none leads into another
    g = cfg_of(f, assert_edges=False)
    if not loops or any(a is not b and g.can_reach(a, b) for a in loops for b in loops):
        ctx.bad("C07.R4", f, f.node, "%s must iterate range(start, end, step)"
                % name, text_="%s range loop" % name)
        return
    for lp in loops:
        _dense_loop(ctx, f, name, acc, recv, lp)


def _dense_loop(ctx, f, name, acc, recv, lp):
    cvar = text(lp.target)
    a = [text(x).replace("self.", "").rstrip("_") for x in lp.iter.args]
    if a == ["start", "end", "step"]:
        ctx.ok("C07.R4", f, lp, "coordinates come from range(start, end, step)")
    else:
        ctx.bad("C07.R4", f, lp, "%s iterates `%s` instead of range(start, end, "
                "step): the half-open range is not what is enumerated"
                % (name, text(lp.iter)))
    from ..cfg import walk_own
    calls = [c for c in walk_own(lp.body) if isinstance(c, ast.Call)
             and isinstance(c.func, ast.Attribute)
             and c.func.attr in ("getPayload", "getPayloadRef")]
    good = [c for c in calls if c.func.attr == acc and c.args and
            text(c.args[0]) == cvar and (recv is None or text(c.func.value) == recv)]
    if len(calls) == 1 and good:
        ctx.ok("C07.R2", f, calls[0], "%s obtains each payload with %s(%s)"
               % (name, acc, cvar))
    else:
        ctx.bad("C07.R2", f, calls[0] if calls else lp,
                "%s must obtain the payload of every visited coordinate with "
                "%s(%s); it uses `%s`: %s"
                % (name, acc, cvar, ", ".join(text(c) for c in calls) or "nothing",
                   "the reference variant does not insert the visited absent "
                   "coordinates" if acc == "getPayloadRef" else
                   "the read variant inserts into the fiber"))
    ys = [n for n in walk_own(lp.body) if isinstance(n, ast.Yield)]
    if len(ys) == 1 and enclosing_stmt(ys[0]) in lp.body:
        ctx.ok("C07.R4", f, ys[0], "one element per coordinate of the range")
    else:
        ctx.bad("C07.R4", f, lp, "%s does not yield exactly once per coordinate"
                % name, text_="%s yield" % name)


def r3(ctx):
    f = ctx.func(I + "__iter__")
    def gatoms(st, g=None):
        return {pat.catom(ctx, g or f, t, pol, False) for t, pol in atomic_guards(st)}
    # the format variable: the one the dispatch compares with the literal 'C'
    fv = None
    for n in f.own_nodes():
        if isinstance(n, ast.Return):
            for a in gatoms(n):
                if a[0] == "==" and "'C'" in (a[1], a[2]):
                    fv = a[2] if a[1] == "'C'" else a[1]
    ctx.require(fv and fv.isidentifier(),
                "C07.R3: __iter__ no longer dispatches on a format variable")
    table = {}
    other = None
    for n in f.own_nodes():
        if isinstance(n, ast.Return):
            for a in gatoms(n):
                if a[0] == "==" and fv in (a[1], a[2]):
                    lit = a[2] if a[1] == fv else a[1]
                    table[lit] = n
        elif isinstance(n, ast.Raise):
            neg = {a for a in gatoms(n) if a[0] == "!=" and fv in (a[1], a[2])}
            if len(neg) >= 2:
                other = [n]
    want = {"'C'": ("iterOccupancy", {"tick": "tick", "start_pos": "start_pos"}),
            "'U'": ("iterActiveShape", {"tick": "tick"})}
    for lit, (meth, args) in want.items():
        r = table.get(lit)
        ok = False
        if r is not None and isinstance(r.value, ast.Call) and \
                isinstance(r.value.func, ast.Attribute) and \
                text(r.value.func.value) == "self" and r.value.func.attr == meth:
            cf = ctx.func(I + meth)
            got = _args(r.value, cf.params[1:])
            got.pop("*")
            ok = got == args
        if ok:
            ctx.ok("C07.R3", f, r, "format %s -> %s" % (lit, meth))
        else:
            ctx.bad("C07.R3", f, r if r is not None else f.node,
                    "default iteration of a rank with format %s must be "
                    "self.%s(%s)" % (lit, meth, args), text_="__iter__ format %s" % lit)
    if set(table) - set(want):
        ctx.bad("C07.R3", f, f.node, "unknown formats dispatched: %s"
                % sorted(set(table) - set(want)), text_="__iter__ extra formats")
    if other and any(isinstance(s, ast.Raise) for s in other):
        ctx.ok("C07.R3", f, other[0], "unknown format rejected")
    else:
        ctx.bad("C07.R3", f, f.node, "an unknown format is not rejected",
                text_="__iter__ else")
    # format source: owner first
    src = []
    for n in f.own_nodes():
        if isinstance(n, ast.Assign) and text(n.targets[0]) == fv:
            # cached getters (`owner = self.getOwner()`) read as the getter
            src.append((pat.inline(ctx, f, n.value).replace(" ", ""),
                        pat.catoms_of_guards(ctx, f, n)))
    if len(src) == 1 and src[0][0].endswith("(self)") and not src[0][1]:
        # fmt = helper(self): the helper's returns are the sources, its
        # parameter read as `self`
        asg = [n for n in f.own_nodes() if isinstance(n, ast.Assign)
               and text(n.targets[0]) == fv][0]
        tg = ctx.ty.resolve(f, asg.value)
        hs = [h for h in (getattr(tg, "funcs", None) or []) if h.node is not None]
        if len(hs) == 1 and len(hs[0].params) == 1 and not \
                ctx.ty.facts_at(hs[0], hs[0].params[0], hs[0].node.body[-1])[0]:
            h = hs[0]
            import re as _re
            sub = lambda t: _re.sub(r"\b%s\b" % _re.escape(h.params[0]), "self", t)
            src = []
            for r in pat.returns(h):
                ats = set()
                for a in gatoms(r, h):
                    ats.add(tuple(sub(x) if isinstance(x, str) else x for x in a))
                src.append((sub(text(r.value).replace(" ", "")), ats))
    own = [s_ for s_ in src if s_[0] == "self.getOwner().getFormat()" and
           pat.A("is not", "self.getOwner()", "None") in s_[1]]
    ra = [s_ for s_ in src if s_[0] == "self.getRankAttrs().getFormat()" and
          pat.A("is", "self.getOwner()", "None") in s_[1]]
    # a source that is consulted is one that is there: `X.getFormat()` under
    # `X is None` is a contradiction
    for val, ats in src:
        if val.endswith(".getFormat()"):
            recv = val[:-len(".getFormat()")]
            if pat.A("is", recv, "None") in ats:
                ctx.bad("C07.R3", f, f.node, "the format is read from `%s` on the "
                        "path where `%s is None`: every walk of such a fiber raises"
                        % (val, recv), text_="__iter__ format source present")
                ra = []
    if own and ra:
        ctx.ok("C07.R3", f, f.node, "format read from the owner when owned, "
               "else from the fiber's rank attributes", text_="__iter__ format source")
    else:
        ctx.bad("C07.R3", f, f.node, "the format is not read from the owning "
                "rank when the fiber is owned", text_="__iter__ format source")


def r4(ctx):
    f = ctx.func(I + "iterRange")
    ys = pat.yields(f)
    ctx.require(len(ys) == 1, "C07.R4: iterRange must have exactly one yield")
    y = enclosing_stmt(ys[0])
    loop = None
    from ..cfg import ancestors
    for a in ancestors(y):
        if isinstance(a, ast.For):
            loop = a
            break
    ctx.require(loop is not None, "C07.R4: iterRange yield is not in a loop")
    tg = loop.target
    cvar = pvar = None
    if isinstance(tg, ast.Tuple) and isinstance(tg.elts[-1], ast.Tuple):
        cvar, pvar = text(tg.elts[-1].elts[0]), text(tg.elts[-1].elts[1])
    ctx.require(cvar, "C07.R4: iterRange loop target not recognised")
    # path predicate of the yield, in DNF over canonical atoms: the emission
    # is guarded by a clause `a or b` when every way of reaching it has a or b
    # -- whether the code nests ifs, joins them with `and`, or skips the rest
    # with `continue` under the negated (De Morgan) condition
    ways = pat.guard_dnf(ctx, f, y, stop=loop) or []

    def holds(*alts):
        return bool(ways) and all(set(alts) & set(w) for w in ways)
    need_start = holds(pat.A("is", "start", "None"), pat.A("<=", "start", cvar))
    have_end = holds(pat.A("is", "end", "None"), pat.A("<", cvar, "end"))
    empt_ok = holds(pat.T("Payload.isEmpty(%s, default=self.getDefault())" % pvar, False))
    if need_start:
        ctx.ok("C07.R4", f, y, "emits only coordinates >= start (or start is None)")
    else:
        ctx.bad("C07.R4", f, y, "iterRange's emission is not guarded by `start "
                "is None or coord >= start` (off-by-one at the lower bound)",
                text_="iterRange lower bound")
    if have_end:
        ctx.ok("C07.R4", f, y, "emits only coordinates < end (or end is None)")
    else:
        ctx.bad("C07.R4", f, y, "iterRange's emission is not guarded by `end is "
                "None or coord < end` (off-by-one at the upper bound)",
                text_="iterRange upper bound")
    if empt_ok:
        ctx.ok("C07.R4", f, y, "payloads empty w.r.t. the fiber's default are skipped")
    else:
        ctx.bad("C07.R4", f, y, "iterRange does not skip exactly the payloads "
                "that are empty w.r.t. the fiber's own default "
                "(`not Payload.isEmpty(payload, default=self.getDefault())`)",
                text_="iterRange emptiness")
    # the bounds tested are the caller's: `start` / `end` are not rebound
    # (unboxing through Payload.get keeps the value)
    for bound in ("start", "end"):
        reb = []
        for n in f.own_nodes():
            tgs = []
            if isinstance(n, ast.Assign):
                tgs = [x for t in n.targets for x in ast.walk(t)]
            elif isinstance(n, (ast.AugAssign, ast.AnnAssign)):
                tgs = list(ast.walk(n.target))
            elif isinstance(n, (ast.For, ast.comprehension)):
                tgs = list(ast.walk(n.target))
            if any(isinstance(x, ast.Name) and x.id == bound for x in tgs):
                v = getattr(n, "value", None)
                if not (isinstance(n, ast.Assign) and v is not None and
                        text(v).replace(" ", "") == "Payload.get(%s)" % bound):
                    reb.append(n)
        if reb:
            ctx.bad("C07.R4", f, reb[0], "iterRange rebinds its `%s` bound (`%s`): "
                    "the range that is clipped to is no longer the one the "
                    "caller named (e.g. a saved-position shortcut that drops "
                    "the lower bound lets earlier coordinates out)"
                    % (bound, text(reb[0])[:60]), text_="iterRange %s rebound" % bound)
        else:
            ctx.ok("C07.R4", f, f.node, "`%s` is the caller's bound on every path"
                   % bound, text_="iterRange %s rebound" % bound)
    # loop exit: break when coord >= end
    brk = None
    for n in f.own_nodes():
        if isinstance(n, ast.If) and is_within(n, loop) and \
                any(isinstance(b, ast.Break) for b in n.body):
            cj = {_atom(ctx, f, t, pol) for t, pol in pat.conjuncts(n.test)}
            if cj == {("is not", "end", "None"), ("<=", "end", cvar)}:
                brk = n
    if brk is not None:
        ctx.ok("C07.R4", f, brk, "stops at the first coordinate >= end")
    else:
        ctx.bad("C07.R4", f, loop, "iterRange does not stop exactly at `end is "
                "not None and coord >= end`", text_="iterRange stop")
    # the stream: raw positional generator from start_pos, or self.iter()
    lazy = [c for c in pat.calls(f, attr="iter") if text(c.func.value) == "self"
            and not c.args]
    if lazy and any((text(t).replace(" ", ""), pol) == ("self.isLazy()", True)
                    for t, pol in guards(enclosing_stmt(lazy[0]))):
        ctx.ok("C07.R5", f, lazy[0], "a lazy fiber's stream is a fresh instance "
               "of its iterator class per traversal")
    else:
        ctx.bad("C07.R5", f, f.node, "iterRange no longer instantiates "
                "self.iter() for each traversal of a lazy fiber",
                text_="iterRange lazy stream")


def _atom(ctx, f, t, pol):
    p = pat.cmp_raw(t, pol)
    if p:
        return p
    s = text(t)
    return ("call", ("not " if not pol else "") + s)


def r5(ctx):
    n = 0
    for f, lst in ctx.eff.lazy_iters.items():
        pass
    for f in ctx.prog.funcs.values():
        if f.module.rel.startswith(("codec/", "notebook/")):
            continue
        for c in pat.calls(f, attr="fromIterator"):
            n += 1
            a = c.args[0] if c.args else None
            lc = ctx.ty.local_callable(f, a.id) if isinstance(a, ast.Name) else None
            if isinstance(lc, tuple):
                ci = lc[1]
                ctx.ok("C07.R5", f, c, "lazy fiber built from iterator class %s"
                       % ci.name)
                _lazy_class(ctx, f, ci)
            elif isinstance(a, ast.Name) and a.id in f.all_param_names():
                ctx.ok("C07.R5", f, c, "forwards the caller's iterator class")
            else:
                ctx.bad("C07.R5", f, c, "fromIterator is given `%s`, not an "
                        "iterator *class*: a generator / instance is consumed "
                        "by the first traversal and a second traversal of the "
                        "lazy fiber yields nothing" % text(a))
    ctx.floor("C07.R5", n, 10, "fromIterator call sites")


def _lazy_class(ctx, f, ci):
    it = ci.methods.get("__iter__")
    if it is None:
        ctx.bad("C07.R5", f, ci.node, "lazy iterator class %s has no __iter__"
                % ci.name)
        return
    for name, val in ci.class_attrs.items():
        one_shot = isinstance(val, ast.GeneratorExp) or (
            isinstance(val, ast.Call) and (
                text(val.func) in ("iter", "zip", "map", "filter", "enumerate", "reversed")
                or (isinstance(val.func, ast.Attribute) and
                    val.func.attr in ("__iter__", "iterOccupancy", "iterRange",
                                      "iterShape", "iterActive"))))
        if one_shot:
            ctx.bad("C07.R5", f, val, "class attribute %s.%s holds a one-shot "
                    "iterator: it is shared by every traversal, so the second "
                    "traversal of the lazy fiber starts exhausted"
                    % (ci.name, name))
    selfn = it.params[0] if it.params else "self"
    for n in it.own_nodes():
        if isinstance(n, (ast.Assign, ast.AugAssign)):
            tgts = n.targets if isinstance(n, ast.Assign) else [n.target]
            for t in tgts:
                if isinstance(t, ast.Attribute) and text(t.value) in (
                        selfn, "type(%s)" % selfn, ci.name):
                    if text(t.value) != selfn:
                        ctx.bad("C07.R5", it, n, "__iter__ of %s assigns a class "
                                "attribute: state leaks between traversals" % ci.name)


# -- R6: a pruned / projected fiber filters with the source's default --------------

def r6_lazy_default(ctx):
    """Iterating the lazy result of prune() / project() goes through
    iterRange again, which skips payloads that are empty w.r.t. the *result's*
    default.  The result must therefore be given the source fiber's default;
    otherwise (constructor default 0) an accepted element holding 0 in a
    fiber with another default disappears from the traversal."""
    for name in ("prune", "project"):
        f = ctx.method("Fiber", name)
        calls = [c for c in pat.calls(f, attr="fromIterator")]
        ctx.require(calls, "C07.R6: Fiber.%s no longer builds a lazy fiber" % name)
        c = calls[-1]
        st = enclosing_stmt(c)
        R = text(st.targets[0]) if isinstance(st, ast.Assign) else None
        ds = [x for x in pat.calls(f, attr="_setDefault")
              if R and text(x.func.value) == R and x.args and
              text(x.args[0]).replace(" ", "") == "%s.getDefault()" % f.params[0]]
        if ds:
            ctx.ok("C07.R6", f, ds[0], "lazy result carries the source's default",
                   text_="%s result default" % name)
        else:
            ctx.bad("C07.R6", f, c, "the lazy fiber Fiber.%s returns is not given "
                    "the source's default (`%s._setDefault(%s.getDefault())`): "
                    "its traversal filters emptiness against 0, so accepted "
                    "elements holding 0 under a non-zero default are dropped"
                    % (name, R or "result", f.params[0]),
                    text_="%s result default" % name)
