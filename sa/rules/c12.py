"""C12 -- equality, emptiness and counting depend on content only (partial)."""

import ast

from ..model import text, AnalysisError
from ..cfg import cfg_of, guards, atomic_guards, enclosing_stmt, EXIT
from ..effects import STATS_LOCS
from ..sites import iter_kind, RAW
from .. import pat

EXPLANATION = (
    "Decided clauses: (R1) every emptiness decision on a payload uses the one "
    "predicate Payload.isEmpty(p, default=<holder>.getDefault()) with the "
    "default of the fiber that holds p, and Payload.isEmpty itself is "
    "`fiber -> fiber.isEmpty(); leaf -> p == default`; (R2) countValues "
    "recurses into fiber payloads and counts a leaf iff it is not empty, "
    "isEmpty is all(...) over the raw payload list, nonEmpty keeps exactly "
    "the non-empty elements, recurses and builds through _newFiber; (R3) the "
    "union mask literals produced by | agree with the literals every "
    "consumer tests; __eq__ rejects each one-sided mask and each unequal "
    "pair and accepts only after the loop; Tensor.__eq__ is rank ids equal "
    "and roots equal; (R4) __eq__, isEmpty, countValues, nonEmpty are "
    "effect-free observers.  That the relation is an equivalence and that "
    "copies compare equal are relations over values and are not decided.")
RULE = ("one obligation per emptiness decision site, per recursion clause, "
        "per mask literal (producer/consumer), per __eq__ exit, per observer")


def run(ctx):
    ctx.guard(r1)
    ctx.guard(r2)
    ctx.guard(r3)
    ctx.guard(r4)


def r1(ctx):
    n = 0
    for f in ctx.prog.funcs.values():
        if not f.module.rel.startswith("core/"):
            continue
        for c in pat.calls(f, name="Payload.isEmpty"):
            n += 1
            d = pat.kwarg(c, "default", 1)
            if d is None:
                ctx.bad("C12.R1", f, c, "emptiness is decided against the "
                        "literal default 0 (no `default=` argument): in a "
                        "tensor whose default is not 0 a stored 0 counts as "
                        "empty and the real default as content")
                continue
            dt = pat.inline(ctx, f, d).replace(" ", "")
            holder = _holder(ctx, f, c.args[0]) if c.args else None
            if holder is None:
                ctx.errors.append("C12.R1: %s: cannot determine which fiber "
                                  "holds the payload `%s` tested at line %d"
                                  % (f.key, text(c.args[0]), c.lineno))
                continue
            if dt == "%s.getDefault()" % holder:
                ctx.ok("C12.R1", f, c, "tested against the default of the "
                       "holding fiber %s" % holder)
            else:
                ctx.bad("C12.R1", f, c, "payload held by `%s` is tested against "
                        "`%s`, not against %s.getDefault()" % (holder, text(d), holder))
    ctx.floor("C12.R1", n, 4, "Payload.isEmpty decision sites")
    f = ctx.method("Payload", "isEmpty")
    fib, leaf = _isempty_by_cases(ctx, f)
    if fib and leaf:
        ctx.ok("C12.R1", f, f.node, "fiber -> isEmpty(), leaf -> == default",
               text_="def isEmpty(p, default=0)")
    else:
        ctx.bad("C12.R1", f, f.node, "Payload.isEmpty is no longer `a fiber is "
                "empty iff fiber.isEmpty(); a leaf iff p == default`",
                text_="def isEmpty(p, default=0)")


def _isempty_by_cases(ctx, f):
    """Payload.isEmpty(p, default) read case by case (sa/symcase.py): for a
    fiber it returns p.isEmpty(); for a leaf a true value exactly when
    p == default.  Indifferent to early returns / single exit / temporaries
    / conditional expressions."""
    from .. import symcase
    from ..symcase import norm
    P = f.params[0] if f.params else "p"
    D = f.params[1] if len(f.params) > 1 else "default"

    def decider(is_fiber, equal):
        def decide(t):
            if isinstance(t, ast.UnaryOp) and isinstance(t.op, ast.Not):
                d = decide(t.operand)
                return None if d is None else not d
            tt = norm(t)
            if tt in ("type(%s).__name__=='Fiber'" % P, "'Fiber'==type(%s).__name__" % P,
                      "isinstance(%s,Fiber)" % P):
                return is_fiber
            if tt in ("type(%s).__name__!='Fiber'" % P, "'Fiber'!=type(%s).__name__" % P):
                return None if is_fiber is None else not is_fiber
            if tt in ("%s==%s" % (P, D), "%s==%s" % (D, P)):
                return equal
            if tt in ("%s!=%s" % (P, D), "%s!=%s" % (D, P)):
                return None if equal is None else not equal
            return None
        return decide

    def terms(is_fiber, equal):
        outs = symcase.Evaluator(ctx, decider(is_fiber, equal)).run(f)
        if not outs or any(o.opaque or not o.returned or o.stores for o in outs):
            return None
        def unbool(e):
            # bool(x) is as true as x
            while isinstance(e, ast.Call) and text(e.func) == "bool" and \
                    len(e.args) == 1 and not e.keywords:
                e = e.args[0]
            return e
        return {norm(unbool(o.ret)) for o in outs}
    fib = terms(True, None) == {"%s.isEmpty()" % P}
    eq_terms = ("%s==%s" % (P, D), "%s==%s" % (D, P))
    t_eq, t_ne = terms(False, True), terms(False, False)
    leaf = t_eq is not None and t_ne is not None and \
        all(x == "True" or x in eq_terms for x in t_eq) and \
        all(x == "False" or x in eq_terms for x in t_ne)
    return fib, leaf


def _holder(ctx, f, arg):
    """Text of the fiber whose payload list `arg` comes from."""
    if isinstance(arg, ast.Subscript) and isinstance(arg.value, ast.Attribute) \
            and arg.value.attr == "payloads":
        return text(arg.value.value)
    if not isinstance(arg, ast.Name):
        return None
    facts, is_param = ctx.ty.facts_at(f, arg.id, arg)
    for fa in facts:
        if fa.kind == "expr" and isinstance(fa.value, ast.Subscript) and \
                isinstance(fa.value.value, ast.Attribute) and \
                fa.value.value.attr == "payloads" and len(facts) == 1:
            return text(fa.value.value.value)
        if fa.kind == "expr" and isinstance(fa.value, ast.Call) and \
                isinstance(fa.value.func, ast.Attribute) and \
                fa.value.func.attr in ("getPayload", "getPayloadRef") and \
                len(fa.value.args) == 1 and len(facts) == 1:
            # a one-coordinate access delivers a payload of that very fiber
            return text(fa.value.func.value)
    if is_param and not facts:
        # lambda p: ... mapped over X.payloads
        node = f.node
        par = getattr(node, "_parent", None)
        if isinstance(par, ast.Call) and text(par.func) == "map" and \
                len(par.args) == 2 and isinstance(par.args[1], ast.Attribute) and \
                par.args[1].attr == "payloads":
            return text(par.args[1].value)
        return None
    for fa in facts:
        if fa.kind == "elem":
            kind, base = iter_kind(ctx, f, fa.value)
            if base:
                return base
            # iterRange: the positional generator over self.coords/payloads
            v = fa.value
            if isinstance(v, ast.Call) and text(v.func) == "enumerate" and v.args:
                k2, b2 = iter_kind(ctx, f, v.args[0])
                if b2:
                    return b2
                if isinstance(v.args[0], ast.Name):
                    fs, _ = ctx.ty.facts_at(f, v.args[0].id, v.args[0])
                    bases = set()
                    for x in fs:
                        if x.kind == "expr":
                            k3, b3 = iter_kind(ctx, f, x.value)
                            if b3:
                                bases.add(b3)
                            elif "self.coords" in text(x.value) and \
                                    "self.payloads" in text(x.value):
                                bases.add("self")
                    if len(bases) == 1:
                        return bases.pop()
    return None


def _walk(stmts):
    from ..cfg import walk_own
    return walk_own(stmts)


def _elem_decider(recursive=None, fiber=None, empty=None):
    """A case for one payload of the walked fiber: is `recursive` set, is
    the payload a fiber, is it empty (w.r.t. the fiber's default).  The
    payload variable may have any name."""
    import re
    pats = [(re.compile(r"^recursive$"), recursive),
            (re.compile(r"^Payload\.contains\(\w+,Fiber\)$"), fiber),
            (re.compile(r"^isinstance\(\w+,Fiber\)$"), fiber),
            (re.compile(r"^Payload\.isEmpty\(\w+,default=self\.getDefault\(\)\)$"), empty)]

    def decide(t):
        tt = text(t).replace(" ", "")
        for rx, val in pats:
            if val is not None and rx.match(tt):
                return val
        return None
    return decide


def _count_term(ctx, view):
    """(iterable, item variable, term text) of a function that returns 0 plus
    one term per item, under a case; the term is '0' when nothing is added."""
    sf = pat.sum_form(ctx, view)
    if sf is not None and isinstance(sf["target"], ast.Name) and \
            isinstance(sf["start"], ast.Constant) and sf["start"].value == 0:
        return sf["iter"], sf["target"].id, \
            pat.inline(ctx, view, sf["elt"]).replace(" ", ""), sf["node"]
    # nothing is added in this case: `acc = 0; for ..: <nothing>; return acc`
    rets = pat.returns(view)
    if len(rets) == 1 and isinstance(rets[0].value, ast.Name):
        v = rets[0].value.id
        stores = [n for n in view.own_nodes() if isinstance(n, (ast.Assign, ast.AugAssign))
                  and any(isinstance(x, ast.Name) and x.id == v
                          for t in (n.targets if isinstance(n, ast.Assign) else [n.target])
                          for x in ast.walk(t))]
        if len(stores) == 1 and isinstance(stores[0], ast.Assign) and \
                isinstance(stores[0].value, ast.Constant) and stores[0].value.value == 0:
            return None, None, "0", rets[0]
    return None


def r2(ctx):
    # countValues, one payload at a time (sa/symcase.py case views): with
    # `recursive` a fiber payload adds its own count, anything else adds 1
    # exactly when it is not empty -- as a loop with `count += ..`, as
    # sum(<term> for p in self.payloads), or split by an early return
    from ..symcase import case_view
    f = ctx.method("Fiber", "countValues")
    cases = [("recursive, fiber payload", dict(recursive=True, fiber=True), "rec"),
             ("recursive, non-empty leaf", dict(recursive=True, fiber=False, empty=False), "1"),
             ("recursive, empty leaf", dict(recursive=True, fiber=False, empty=True), "0"),
             ("not recursive, non-empty payload", dict(recursive=False, empty=False), "1"),
             ("not recursive, empty payload", dict(recursive=False, empty=True), "0")]
    walk_ok, body_ok, anchor = True, True, f.node
    for label, case, want in cases:
        view = case_view(f, _elem_decider(**case), "countValues: " + label)
        got = _count_term(ctx, view)
        if got is None:
            body_ok = False
            continue
        it, var, term, node = got
        anchor = node
        if it is not None and iter_kind(ctx, view, it) != (RAW, "self"):
            walk_ok = False
        if want == "rec":
            good = term in ("Payload.get(%s).countValues()" % var, "%s.countValues()" % var)
        else:
            good = term == want
        if not good:
            body_ok = False
    if walk_ok:
        ctx.ok("C12.R2", f, anchor, "countValues walks the raw payload list")
    else:
        ctx.bad("C12.R2", f, anchor, "countValues must walk self.payloads",
                text_="countValues loop")
    if body_ok:
        ctx.ok("C12.R2", f, anchor, "recurses into fiber payloads, "
               "counts a leaf iff not empty")
    else:
        ctx.bad("C12.R2", f, anchor, "countValues no longer "
                "recurses into fiber payloads and counts a leaf iff it is "
                "not empty", text_="countValues body")
    # Tensor.countValues: content is counted from the tree, not from the
    # rank lists (bookkeeping that lags behind direct edits of the tree)
    ft = ctx.method("Tensor", "countValues")
    rets_t = pat.returns(ft)
    uses_ranks = [n for n in ft.own_nodes() if isinstance(n, ast.Attribute)
                  and n.attr in ("ranks", "fibers", "getFibers")]
    deleg = len(rets_t) == 1 and \
        pat.inline(ctx, ft, rets_t[0].value).replace(" ", "") == \
        "%s.getRoot().countValues()" % ft.params[0]
    if deleg and not uses_ranks:
        ctx.ok("C12.R2", ft, rets_t[0], "Tensor.countValues counts from the root",
               text_="Tensor.countValues")
    else:
        ctx.bad("C12.R2", ft, rets_t[0] if rets_t else ft.node,
                "Tensor.countValues is no longer the root fiber's count%s: "
                "equal tensors can report different counts (the rank lists "
                "are not updated by direct edits of the tree)"
                % (" (it reads the rank lists: `%s`)" % text(uses_ranks[0])
                   if uses_ranks else ""), text_="Tensor.countValues")
    # isEmpty
    f = ctx.method("Fiber", "isEmpty")
    rets = pat.returns(f)
    good = False
    fa_ = pat.forall_form(ctx, f)
    if fa_ is not None:
        it, var, pred, pol, _n = fa_
        good = pol and text(it).replace(" ", "") == "self.payloads" and \
            text(pred).replace(" ", "") == \
            "Payload.isEmpty(%s,default=self.getDefault())" % var
    if good:
        ctx.ok("C12.R2", f, rets[0], "isEmpty is all(...) over the raw payloads")
    else:
        ctx.bad("C12.R2", f, f.node, "Fiber.isEmpty is no longer `all payloads "
                "are empty` over the raw payload list (e.g. any(...), or a "
                "filtered iteration)", text_="def isEmpty(self)")
    # nonEmpty, one element at a time: an empty payload is dropped, a
    # non-empty fiber payload is kept as its own nonEmpty(), any other payload
    # as it is; the result is built through _newFiber
    f = ctx.method("Fiber", "nonEmpty")
    cases = [("empty payload", dict(empty=True), None),
             ("non-empty fiber payload", dict(empty=False, fiber=True), "fiber"),
             ("non-empty leaf", dict(empty=False, fiber=False), "leaf")]
    good, why, anchor = True, "", f.node
    for label, case, want in cases:
        view = case_view(f, _elem_decider(**case), "nonEmpty: " + label)
        loops = [n for n in view.own_nodes() if isinstance(n, ast.For)]
        if len(loops) != 1 or iter_kind(ctx, view, loops[0].iter) != (RAW, "self") or \
                not (isinstance(loops[0].target, ast.Tuple) and len(loops[0].target.elts) == 2):
            ctx.bad("C12.R2", f, f.node, "nonEmpty must walk zip(self.coords, "
                    "self.payloads)", text_="nonEmpty loop")
            good = None
            break
        lp = loops[0]
        anchor = lp
        c, p = [text(e) for e in lp.target.elts]
        built = None
        for r in pat.returns(view):
            v = r.value
            if isinstance(v, ast.Call) and text(v.func) == "self._newFiber" and \
                    len(v.args) == 2 and all(isinstance(a, ast.Name) for a in v.args):
                built = (v.args[0].id, v.args[1].id)
        if not built:
            good, why = False, "the result is not built through _newFiber(coords, payloads)"
            break
        cl, pl = built
        app = {cl: [], pl: []}
        cond = False
        for st in lp.body:
            for n in ([st] if isinstance(st, ast.Expr) else _walk([st])):
                call = n.value if isinstance(n, ast.Expr) else n
                if isinstance(call, ast.Call) and isinstance(call.func, ast.Attribute) \
                        and call.func.attr in ("append", "insert", "extend") and \
                        text(call.func.value) in app:
                    if not isinstance(st, ast.Expr) or call.func.attr != "append" \
                            or len(call.args) != 1:
                        cond = True
                    else:
                        app[text(call.func.value)].append(
                            pat.inline(ctx, view, call.args[0]).replace(" ", ""))
        if cond:
            good, why = False, "for %s an element is added under a further condition" % label
        elif want is None:
            if app[cl] or app[pl]:
                good, why = False, "an empty payload is kept"
        else:
            wp = ("%s.nonEmpty()" % p, "Payload.get(%s).nonEmpty()" % p) \
                if want == "fiber" else (p,)
            if app[cl] != [c] or len(app[pl]) != 1 or app[pl][0] not in wp:
                good, why = False, "for a %s it keeps coordinates %s, payloads %s" % (
                    label, app[cl], app[pl])
        if not good:
            break
    if good:
        ctx.ok("C12.R2", f, anchor, "keeps exactly the non-empty elements, "
               "recurses, builds through _newFiber")
    elif good is False:
        ctx.bad("C12.R2", f, anchor, "nonEmpty no longer keeps exactly the "
                "non-empty elements (recursing into fiber payloads) and "
                "builds the result through _newFiber (%s)" % why,
                text_="nonEmpty body")


def _consts_compared(f, var=None):
    """Comparisons of a variable with a union-mask literal ('A', 'B', 'AB'):
    [(literal, Compare node)].  The variable is recognised by what it is
    compared with, not by its name."""
    def masklit(e):
        return isinstance(e, ast.Constant) and isinstance(e.value, str) and \
            0 < len(e.value) <= 2 and set(e.value) <= {"A", "B"}
    out = []
    for n in f.own_nodes():
        if isinstance(n, ast.Compare) and len(n.ops) == 1 and \
                isinstance(n.ops[0], (ast.Eq, ast.In)):
            l, r = n.left, n.comparators[0]
            if isinstance(l, ast.Name) and masklit(r):
                out.append((r.value, n))
            if isinstance(r, ast.Name) and masklit(l):
                out.append((l.value, n))
    return out


def is_in_loop(node, lp):
    from ..cfg import is_within
    return is_within(node, lp)


def r3(ctx):
    orit = ctx.func("core/iterators.py:__or__.or_iterator.__iter__")
    produced = set()
    for y in pat.yields(orit):
        v = y.value
        if isinstance(v, ast.Tuple) and isinstance(v.elts[1], ast.Tuple) and \
                isinstance(v.elts[1].elts[0], ast.Constant):
            produced.add(v.elts[1].elts[0].value)
    ctx.require(produced, "C12.R3: no mask literals found in or_iterator")
    consumers = [("core/fiber.py:Fiber.__eq__", "mask"),
                 ("core/fiber.py:Fiber.uncompress", "mask"),
                 ("core/iterators.py:union.union_iterator.__iter__", "ab_mask")]
    for key, var in consumers:
        f = ctx.func(key)
        lits = _consts_compared(f, var)
        ctx.require(lits, "C12.R3: consumer %s tests no mask literal" % key)
        for lit, node in lits:
            if lit in produced or (isinstance(node.ops[0], ast.In) and
                                   any(lit in p for p in produced)):
                ctx.ok("C12.R3", f, node, "tests mask literal %r, which | "
                       "produces" % lit)
            else:
                ctx.bad("C12.R3", f, node, "tests the mask literal %r, which "
                        "the union operator never produces %s: this case is "
                        "silently never taken" % (lit, sorted(produced)))
    # __eq__ exits
    f = ctx.method("Fiber", "__eq__")
    other = f.params[1]
    loops = [n for n in f.own_nodes() if isinstance(n, ast.For)]
    quant = None
    if not loops:
        # `return not any(<differs> for c, (mask, a, b) in self | other)` /
        # `return all(..)`, once the non-fiber case is out of the way
        from ..symcase import case_view
        isf = "isinstance(%s,Fiber)" % other

        def is_fiber(t):
            return True if text(t).replace(" ", "") == isf else None
        quant = pat.forall_form(ctx, case_view(f, is_fiber, "operand is a Fiber"))
    ctx.require(len(loops) == 1 or quant is not None, "C12.R3: Fiber.__eq__ loop not found")
    if quant is not None:
        it, _var, pred, qpol, lp = quant
        tgt = [g for n in ast.walk(lp) if isinstance(n, (ast.GeneratorExp, ast.ListComp))
               for g in n.generators]
        target = tgt[0].target if tgt else None
    else:
        lp = loops[0]
        it, target = lp.iter, lp.target
    if isinstance(it, ast.Name):
        d = pat.single_def(ctx, f, it)
        it = d if d is not None else it
    if isinstance(it, ast.BinOp) and isinstance(it.op, ast.BitOr) and \
            {text(it.left), text(it.right)} == {"self", other}:
        ctx.ok("C12.R3", f, lp, "equality co-iterates the union of both operands")
    else:
        ctx.bad("C12.R3", f, lp, "Fiber.__eq__ iterates `%s`, not the union "
                "self | other: elements present on one side only are not seen"
                % text(it))
    names = [text(e) for e in target.elts[1].elts] if isinstance(
        target, ast.Tuple) and len(target.elts) == 2 and \
        isinstance(target.elts[1], ast.Tuple) else []
    ctx.require(len(names) == 3, "C12.R3: __eq__ loop target not (c, (mask, a, b))")
    mask, pa, pb = names
    from ..cfg import atomic_guards

    def core_of(g_):
        # `mask != <other literal>` atoms are implied by the chain position
        return {a for a in g_ if not (a[0] == "!=" and mask in a[1:] and
                                      any(x.startswith("'") for x in a[1:]))}
    rejects = []
    if quant is not None:
        # the fibers differ where the quantified condition fails
        for g_ in pat.cdnf(ctx, f, pat.ifexp_as_bool(pred), not qpol) or []:
            rejects.append((core_of(g_), lp))
    else:
        for r in pat.returns(f):
            if text(r.value) == "False" and r in list(_walk(lp.body)):
                for g_ in pat.guard_dnf(ctx, f, r, stop=lp) or []:
                    rejects.append((core_of(g_), r))
    need = [
        ([{pat.A("==", mask, "'A'")}], "an element only in self"),
        ([{pat.A("==", mask, "'B'")}], "an element only in other"),
        ([{pat.A("==", mask, "'AB'"), pat.A("!=", pa, pb)}, {pat.A("!=", pa, pb)}],
         "unequal payloads"),
    ]
    for alts, what in need:
        hit = [r for core, r in rejects if core in alts]
        if hit:
            ctx.ok("C12.R3", f, hit[0], "returns False for %s" % what,
                   text_="__eq__ rejects %s" % what)
        else:
            ctx.bad("C12.R3", f, lp, "Fiber.__eq__ does not return False for %s: "
                    "fibers that differ that way compare equal, which weakens "
                    "every assertEqual in the suite" % what,
                    text_="__eq__ rejects %s" % what)
    g = cfg_of(f, assert_edges=False)
    trues = [r for r in pat.returns(f) if text(r.value) == "True"]
    after = [r for r in trues if quant is None and r not in list(_walk(lp.body))
             and g.can_reach(lp, r)]
    inside = [r for r in trues if quant is None and r in list(_walk(lp.body))]
    if quant is not None:
        ctx.ok("C12.R3", f, lp, "True exactly when no element differs "
               "(a quantifier over the whole union)")
    elif after and not inside:
        ctx.ok("C12.R3", f, after[0], "True only after every element was compared")
    else:
        ctx.bad("C12.R3", f, (inside or [f.node])[0], "Fiber.__eq__ can return "
                "True before all elements were compared",
                text_="__eq__ returns True early")
    nf = False
    for r in pat.returns(f):
        if text(r.value) == "False" and (quant is not None or not is_in_loop(r, lp)):
            g_ = {pat.catom(ctx, f, t, pol, False) for t, pol in atomic_guards(r)}
            if g_ == {pat.T("isinstance(%s, Fiber)" % other, False)}:
                nf = True
    if nf:
        ctx.ok("C12.R3", f, f.body[0], "a non-fiber never equals a fiber",
               text_="__eq__ non-fiber")
    else:
        ctx.bad("C12.R3", f, f.node, "Fiber.__eq__ no longer returns False for "
                "a non-Fiber argument", text_="__eq__ non-fiber")
    # Tensor.__eq__
    f = ctx.method("Tensor", "__eq__")
    o = f.params[1]
    rets = pat.returns(f)
    # case by case on (rank ids equal?, roots equal?): the result is truthy
    # exactly when both are (sa/symcase.py) -- `a and b`, or guard clauses
    # that return the failed comparison
    from .. import symcase
    Ra = pat.A("==", "self.getRankIds()", "%s.getRankIds()" % o)
    Fa = pat.A("==", "self.getRoot()", "%s.getRoot()" % o)

    def eq_decider(r_, f_):
        def decide(t):
            if isinstance(t, (ast.BoolOp, ast.UnaryOp)):
                return None
            a = pat.catom(None, None, t, True, False)
            if a == Ra:
                return r_
            if a == Fa:
                return f_
            if a[0] == "!=" and ("==", a[1], a[2]) in (Ra, Fa):
                return not (r_ if ("==", a[1], a[2]) == Ra else f_)
            return None
        return decide
    good = bool(rets)
    s = pat.inline(ctx, f, rets[0].value, depth=3).replace(" ", "") if rets else ""
    for r_ in (True, False):
        for f_ in (True, False):
            dec = eq_decider(r_, f_)
            outs = symcase.Evaluator(ctx, dec).run(f)
            if not outs or any(o_.opaque or not o_.returned or o_.ret is None or o_.stores
                               for o_ in outs):
                good = False
                continue
            for o_ in outs:
                if symcase.simplify(o_.ret, dec) is not (r_ and f_):
                    good = False
    if good:
        ctx.ok("C12.R3", f, rets[0], "tensor equality = rank ids equal and roots equal")
    else:
        ctx.bad("C12.R3", f, f.node, "Tensor.__eq__ is no longer `rank ids equal "
                "and roots equal` (computed: %s)" % s, text_="Tensor.__eq__")


def r4(ctx):
    for cname, mname in (("Fiber", "__eq__"), ("Tensor", "__eq__"),
                         ("Fiber", "isEmpty"), ("Fiber", "countValues"),
                         ("Fiber", "nonEmpty"), ("Tensor", "countValues"),
                         ("Payload", "isEmpty")):
        f = ctx.method(cname, mname)
        roots = {("p", n) for n in f.all_param_names()}
        ws = [(loc, r, c, w) for loc, r, c, w in ctx.eff.writes(f, tree_only=True)
              if r in roots and loc not in STATS_LOCS]
        certain = [x for x in ws if not x[3].uncertain]
        if ws and not certain:
            ctx.errors.append("C12.R4: unresolved receiver decides %s: %s"
                              % (f.key, ws[0][3].render()))
        elif certain:
            seen = set()
            for loc, r, c, w in certain:
                k = w.site()
                if k in seen:
                    continue
                seen.add(k)
                ctx.bad("C12.R4", f, f.node, "%s.%s writes %s of `%s` via %s"
                        % (cname, mname, loc, r[1], w.render()),
                        text_="%s -> %s: %s" % (mname, k[0].split(":")[-1], k[1]))
        else:
            ctx.ok("C12.R4", f, f.node, "effect-free observer",
                   text_="%s.%s" % (cname, mname))
