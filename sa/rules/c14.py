"""C14 -- rank ids, shapes, defaults, formats and active ranges follow the
data (sibling cross-check of every transform's carry-over and of every
lazy-result builder against a requirement table)."""

import ast

from ..model import text, AnalysisError
from ..cfg import cfg_of, guards, atomic_guards, enclosing_stmt, is_within, EXIT
from .. import pat

EXPLANATION = (
    "Each tensor transform re-implements the carry-over of name, colour, "
    "mutability, leaf default, per-rank formats and shape by hand.  The "
    "check holds every producer (_splitGeneric, swizzleRanks, swapRanks, "
    "flattenRanks, mergeRanks, unflattenRanks) against one requirement "
    "table: on the way to `return r`, r must have received each attribute "
    "from the operand (setter call or fromFiber keyword), formats through a "
    "loop over the result's rank ids, and the shape handed to fromFiber must "
    "be data-flow derived from self.getShape(authoritative=True).  Every "
    "lazy-result builder (the fromIterator sites) is held against the table "
    "of rank id / active range / default sources the property states.  "
    "Fiber attribute queries consult the owner first; Rank.append sets the "
    "owner after estimating the shape; Rank.getShape(authoritative=True) "
    "returns None for estimated shapes; (R5) the active range swizzleRanks "
    "re-computes is min / max over candidates filtered so that start <= first "
    "and end > last stored coordinate; the pair-style shape fold prepends over "
    "the reversed prefix.  Coordinates inside shape / active range elsewhere "
    "are value properties and are not decided.")
RULE = ("one obligation per (producer x required attribute), per lazy "
        "builder x {rank id, active range, default}, per owner-first query")

TRANSFORMS = ["_splitGeneric", "swizzleRanks", "swapRanks", "flattenRanks",
              "mergeRanks", "unflattenRanks"]


def run(ctx):
    ctx.guard(transforms)
    ctx.guard(lazy_builders)
    ctx.guard(owner_first)
    ctx.guard(authoritative)
    ctx.guard(swizzle_active)
    ctx.guard(pair_shape_order)
    ctx.guard(leaf_default_condition)
    ctx.guard(rank_shape_covers)
    ctx.guard(unflatten_siblings)
    ctx.guard(flatten_ids_flat)
    ctx.guard(merge_absolute_range)


def _walk(stmts):
    from ..cfg import walk_own
    return walk_own(stmts)


# -- R5: an absolute-style merge lives in the lower rank's coordinate space -------

def merge_absolute_range(ctx):
    """Fiber._flattenCoords gives a merged element, for style 'absolute', the
    coordinate of the *lower* rank.  The merged fiber's active range must
    then be the lower fibers' (their union, which _mergeRanksHelper
    accumulates anyway), not the upper fiber's: with the upper range the
    stored coordinates fall outside the active range whenever the two ranks
    do not share a coordinate space (a [2, 8] tensor merged absolutely kept
    coordinates 5..7 under active range (0, 2))."""
    fc = ctx.method("Fiber", "_flattenCoords")
    lower = None
    for n in fc.own_nodes():
        if isinstance(n, ast.Assign) and isinstance(n.value, ast.Name) and \
                pat.A("==", "style", "'absolute'") in pat.catoms_of_guards(ctx, fc, n):
            lower = n.value.id
    if lower is None or lower != (fc.params[1] if len(fc.params) > 1 else None):
        ctx.info("C14.R5: style 'absolute' of _flattenCoords is no longer the lower "
                 "rank's coordinate; the merge-range rule is not applied")
        return
    f = ctx.method("Fiber", "_mergeRanksHelper")
    # the variable handed to the result's constructor as active_range=
    arv = None
    for r in pat.returns(f):
        v = r.value
        if isinstance(v, ast.Call):
            a = pat.kwarg(v, "active_range", None)
            if isinstance(a, ast.Name):
                arv = a.id
    ctx.require(arv, "C14.R5: _mergeRanksHelper no longer passes a variable as "
                "active_range= of the fiber it returns")
    stylep = f.params[2] if len(f.params) > 2 else "style"
    sets = [n for n in f.own_nodes() if isinstance(n, ast.Assign)
            and text(n.targets[0]) == arv
            and pat.A("==", stylep, "'absolute'") in pat.catoms_of_guards(ctx, f, n)]
    ctx.require(sets, "C14.R5: _mergeRanksHelper no longer sets the active range for "
                "style 'absolute'")
    # variables that accumulate the sub-fibers' active ranges
    acc = set()
    for n in f.own_nodes():
        if isinstance(n, ast.Assign) and any(
                isinstance(c, ast.Call) and isinstance(c.func, ast.Attribute)
                and c.func.attr == "getActive" and text(c.func.value) != f.params[0]
                for c in ast.walk(n.value)):
            for t in n.targets:
                acc |= {x.id for x in ast.walk(t) if isinstance(x, ast.Name)}
    # ... and what is computed from them only (min / max folds, unpacked temps)
    changed = True
    while changed:
        changed = False
        for n in f.own_nodes():
            if isinstance(n, ast.Assign):
                names_ = {x.id for x in ast.walk(n.value) if isinstance(x, ast.Name)} - \
                    {"min", "max"}
                tg = {x.id for t in n.targets for x in ast.walk(t) if isinstance(x, ast.Name)}
                if names_ and names_ <= acc and not any(
                        isinstance(c, ast.Call) and not (isinstance(c.func, ast.Name) and
                                                         c.func.id in ("min", "max"))
                        for c in ast.walk(n.value)) and not tg <= acc:
                    acc |= tg
                    changed = True
    for n in sets:
        used = {x.id for x in ast.walk(n.value) if isinstance(x, ast.Name)}
        upper = "%s.getActive()" % f.params[0] in text(n.value).replace(" ", "")
        if used and used <= acc and not upper:
            ctx.ok("C14.R5", f, n, "absolute merge: active range from the lower fibers' ranges",
                   text_="merge absolute active range")
        else:
            ctx.bad("C14.R5", f, n, "for style 'absolute' the merged coordinates are "
                    "the lower rank's, but the active range is `%s` (%s): stored "
                    "coordinates can lie outside the active range, so iterActive() "
                    "of the merged fiber drops them"
                    % (text(n.value), "the upper fiber's" if upper else
                       "not the accumulated lower ranges %s" % sorted(acc)),
                    text_="merge absolute active range")


# -- R1: the id of a flattened rank is a flat list ------------------------------

def flatten_ids_flat(ctx):
    """A flattened rank is named by the list of the ids it combines, and the
    coordinates are flat tuples of the same length.  A rank that is folded in
    may itself be the result of an earlier flatten (its id is a list): its ids
    must be spliced into the combined id, a plain id appended.
    Tensor._flattenRankIdsShape already tests `isinstance(<current id>, list)`
    -- ids can be lists; the ids of the ranks folded in need the same case
    split, or a staged flatten reports ['A', ['B', ['C', 'D']]] for
    coordinates (b, c, d)."""
    f = ctx.method("Tensor", "_flattenRankIdsShape")
    rets = pat.returns(f)
    firsts = {r.value.elts[0].id if isinstance(r.value, ast.Tuple) and r.value.elts and
              isinstance(r.value.elts[0], ast.Name) else None for r in rets}
    ids = firsts.pop() if len(firsts) == 1 else None
    ctx.require(ids, "C14.R1: _flattenRankIdsShape no longer returns (rank_ids, shape)")
    spliced = appended = None
    for n in f.own_nodes():
        if not isinstance(n, ast.If):
            continue
        t, pol = n.test, True
        while isinstance(t, ast.UnaryOp) and isinstance(t.op, ast.Not):
            t, pol = t.operand, not pol
        if not (isinstance(t, ast.Call) and text(t.func) == "isinstance" and
                len(t.args) == 2 and text(t.args[1]) == "list" and
                isinstance(t.args[0], ast.Name)):
            continue
        x = t.args[0].id
        d = pat.single_def(ctx, f, t.args[0])
        # the id of a rank *below* the one being built: <ids>[<depth> + k]
        if not (isinstance(d, ast.Subscript) and text(d.value) == ids and
                isinstance(d.slice, ast.BinOp) and isinstance(d.slice.op, ast.Add)):
            continue
        lst, oth = (n.body, n.orelse) if pol else (n.orelse, n.body)
        for st in _walk(lst):
            if isinstance(st, ast.AugAssign) and isinstance(st.op, ast.Add) and \
                    text(st.value) == x and text(st.target).startswith(ids + "["):
                spliced = st
            if isinstance(st, ast.Call) and isinstance(st.func, ast.Attribute) and \
                    st.func.attr == "extend" and [text(a) for a in st.args] == [x]:
                spliced = st
        for st in _walk(oth):
            if isinstance(st, ast.Call) and isinstance(st.func, ast.Attribute) and \
                    st.func.attr == "append" and [text(a) for a in st.args] == [x]:
                appended = st
    if spliced is not None and appended is not None:
        ctx.ok("C14.R1", f, spliced, "a folded-in list id is spliced, a plain id appended",
               text_="flatten ids stay flat")
    else:
        ctx.bad("C14.R1", f, rets[0], "Tensor._flattenRankIdsShape no longer "
                "splices the id of a folded-in rank that is itself a list (and "
                "appends a plain one): flattening an already flattened rank "
                "reports a nested id such as ['B', ['C', 'D']] for flat "
                "coordinates (b, c, d), and the combined rank can no longer "
                "be addressed by its flat id", text_="flatten ids stay flat")


# -- R1: an unflatten peels the shape exactly like the rank ids -----------------

def unflatten_siblings(ctx):
    """Tensor._unflattenRankIdsShape expands the entry of every unflattened
    level of two parallel lists -- the rank ids and the shape -- into its head
    and the rest.  The two are position-for-position descriptions of the same
    ranks, so whatever is done to one list must be done to the other: the two
    pieces of code are cross-checked against each other (same statements up
    to the name of the list and of local temporaries, or one helper applied
    to both).  A deviation leaves a rank with the shape of its neighbour or
    the shape list with a different length than the rank ids."""
    import re
    f = ctx.method("Tensor", "_unflattenRankIdsShape")
    rets = pat.returns(f)
    ctx.require(len(rets) == 1 and isinstance(rets[0].value, ast.Tuple) and
                len(rets[0].value.elts) == 2 and
                all(isinstance(e, ast.Name) for e in rets[0].value.elts),
                "C14.R1: _unflattenRankIdsShape no longer returns (rank_ids, shape)")
    names = [e.id for e in rets[0].value.elts]

    def description(L):
        out = []
        for st in f.body:
            if isinstance(st, ast.For) and any(
                    isinstance(n, ast.Name) and n.id == L for n in ast.walk(st)):
                src = text(st)
                local = []
                for n in ast.walk(st):
                    if isinstance(n, ast.Name) and isinstance(n.ctx, ast.Store) and \
                            n.id != L and n.id not in local:
                        local.append(n.id)
                src = re.sub(r"\b%s\b" % re.escape(L), "$L", src)
                for i, nm in enumerate(local):
                    src = re.sub(r"\b%s\b" % re.escape(nm), "$%d" % i, src)
                out.append(("loop", src.replace(" ", "")))
            elif isinstance(st, (ast.Expr, ast.Assign)) and isinstance(st.value, ast.Call) \
                    and isinstance(st.value.func, ast.Name) and \
                    [text(a) for a in st.value.args] == [L] and not st.value.keywords and \
                    st.value.func.id in f.inner_funcs:
                out.append(("helper", st.value.func.id))
        return out
    da, db = description(names[0]), description(names[1])

    def skeleton(L):
        # statement kinds only: two spellings of different statement shape
        # (a loop on one side, a comprehension on the other) are not compared
        return [[type(n).__name__ for n in ast.walk(st) if isinstance(n, ast.stmt)]
                for st in f.body if isinstance(st, ast.For) and any(
                    isinstance(n, ast.Name) and n.id == L for n in ast.walk(st))]
    if da != db and (not da or not db or skeleton(names[0]) != skeleton(names[1])
                     or {d[0] for d in da + db} != {"loop"}):
        ctx.info("C14.R1: the rank-id and shape halves of _unflattenRankIdsShape "
                 "are written in different forms; the cross-check is not applied")
        return
    if da and da == db:
        ctx.ok("C14.R1", f, rets[0], "shape entries are peeled exactly like the "
               "rank ids (%s)" % ("one helper for both" if da[0][0] == "helper"
                                  else "statement-for-statement"),
               text_="unflatten rank ids / shape in step")
    else:
        ctx.bad("C14.R1", f, rets[0], "_unflattenRankIdsShape treats the shape "
                "list differently from the rank-id list (%s vs %s): a rank gets "
                "a shape entry that belongs to another rank, or the two lists "
                "differ in length"
                % ([d[1][:90] for d in db] or "nothing", [d[1][:90] for d in da] or "nothing"),
                text_="unflatten rank ids / shape in step")


def _result(ctx, f):
    """(result variable, fromFiber call, kwargs dict literal or None) of the
    main (non-early) return."""
    rets = [r for r in pat.returns(f) if isinstance(r.value, ast.Name)]
    out = []
    for r in rets:
        facts, _ = ctx.ty.facts_at(f, r.value.id, r.value)
        for fa in facts:
            if fa.kind == "expr" and isinstance(fa.value, ast.Call) and \
                    text(fa.value.func) == "Tensor.fromFiber":
                out.append((r, fa.value, fa.stmt))
    return out


def _fromfiber_kw(ctx, f, call):
    """keyword -> value expr of a fromFiber call (incl. **dict literal)."""
    kw = {}
    names = ["rank_ids", "fiber", "shape", "name", "color", "default"]
    for i, a in enumerate(call.args):
        if i < len(names):
            kw[names[i]] = a
    for k in call.keywords:
        if k.arg is not None:
            kw[k.arg] = k.value
        else:
            d = k.value
            if isinstance(d, ast.Name):
                facts, _ = ctx.ty.facts_at(f, d.id, d)
                for fa in facts:
                    if fa.kind == "expr" and isinstance(fa.value, ast.Dict):
                        for kk, vv in zip(fa.value.keys, fa.value.values):
                            if isinstance(kk, ast.Constant):
                                kw[kk.value] = vv
                    elif fa.kind == "add":
                        pass
                # kwargs['shape'] = new_shape style stores
                for n in f.own_nodes():
                    if isinstance(n, ast.Assign) and \
                            isinstance(n.targets[0], ast.Subscript) and \
                            text(n.targets[0].value) == d.id and \
                            isinstance(n.targets[0].slice, ast.Constant):
                        kw[n.targets[0].slice.value] = n.value
    return kw


def _derives_from(ctx, f, expr, needle, depth=0, seen=None):
    """Does the value of `expr` data-flow (through local definitions, list
    operations, comprehensions, copies) from an expression containing
    `needle`?"""
    if expr is None or depth > 8:
        return False
    seen = seen if seen is not None else set()
    t = text(expr).replace(" ", "")
    if needle in t:
        return True
    for n in ast.walk(expr):
        if isinstance(n, ast.Name) and isinstance(n.ctx, ast.Load):
            if (n.id, id(n)) in seen:
                continue
            seen.add((n.id, id(n)))
            facts, is_param = ctx.ty.facts_at(f, n.id, n)
            for fa in facts:
                if fa.value is not None and _derives_from(ctx, f, fa.value, needle,
                                                          depth + 1, seen):
                    return True
            # tuple-unpacked from a helper call: follow the helper
            for fa in facts:
                v = fa.value
                if fa.kind == "expr" and isinstance(v, ast.Call):
                    tg = ctx.ty.resolve(f, v)
                    for callee in tg.funcs:
                        for r in pat.returns(callee):
                            if _derives_from(ctx, callee, r.value, needle,
                                             depth + 1, set()):
                                return True
    return False


def transforms(ctx):
    for name in TRANSFORMS:
        f = ctx.method("Tensor", name)
        results = _result(ctx, f)
        if not results:
            raise AnalysisError("C14.R1: %s does not build its result with "
                                "Tensor.fromFiber" % f.key)
        for ret, call, defst in results:
            _one_result(ctx, f, name, ret, call, defst)
    _renamings(ctx)


def _one_result(ctx, f, name, ret, call, defst):
    if True:
        R = ret.value.id
        kw = _fromfiber_kw(ctx, f, call)
        g = cfg_of(f, assert_edges=False)

        def setter(meth):
            out = []
            for c in pat.calls(f, attr=meth):
                if text(c.func.value) == R:
                    st = enclosing_stmt(c)
                    # on every path from the construction to the return
                    if ret not in g.reachable(defst, avoid={st}):
                        out.append(c)
            return out

        def need(attr, ok, why):
            if ok:
                ctx.ok("C14.R1", f, ok if isinstance(ok, ast.AST) else call,
                       "%s carried over" % attr,
                       text_="Tensor.%s carries %s" % (name, attr))
            else:
                ctx.bad("C14.R1", f, ret, "Tensor.%s does not carry the "
                        "operand's %s over to its result: %s"
                        % (name, attr, why),
                        text_="Tensor.%s carries %s" % (name, attr))
        # name
        s = setter("setName")
        okn = [c for c in s if c.args and _derives_from(ctx, f, c.args[0], "self.getName()")]
        if not okn and "name" in kw and _derives_from(ctx, f, kw["name"], "self.getName()"):
            okn = [call]
        need("name", okn and okn[0], "the result is anonymous / keeps a stale name")
        # colour
        s = setter("setColor")
        okc = [c for c in s if c.args and text(c.args[0]).replace(" ", "") == "self.getColor()"]
        if not okc and "color" in kw and text(kw["color"]).replace(" ", "") == "self.getColor()":
            okc = [call]
        need("color", okc and okc[0], "the result is drawn in the default colour")
        # mutability
        s = setter("setMutable")
        okm = [c for c in s if c.args and text(c.args[0]).replace(" ", "") == "self.isMutable()"]
        need("mutability hint", okm and okm[0],
             "fromFiber marks the result immutable whatever the operand was")
        # default
        s = setter("setDefault")
        okd = [c for c in s if c.args and text(c.args[0]).replace(" ", "") == "self.getDefault()"]
        if not okd and "default" in kw and \
                text(kw["default"]).replace(" ", "") == "self.getDefault()":
            okd = [call]
        need("leaf default", okd and okd[0],
             "a tensor with a non-zero default comes back with default 0")
        # formats
        okf = None
        for lp in _format_loops(ctx, f, R):
            if ret not in g.reachable(defst, avoid={lp}):
                okf = lp
        if okf is None:
            # ... or through a method of the operand handed the result
            for c in f.own_nodes():
                if isinstance(c, ast.Call) and isinstance(c.func, ast.Attribute) and \
                        text(c.func.value) == "self" and len(c.args) == 1 and \
                        not c.keywords and text(c.args[0]) == R:
                    h = ctx.prog.cls("Tensor").methods.get(c.func.attr)
                    st = enclosing_stmt(c)
                    if h is None or len(h.params) != 2 or h.params[0] != "self" or \
                            ret in g.reachable(defst, avoid={st}):
                        continue
                    if any(lp in h.body for lp in _format_loops(ctx, h, h.params[1])):
                        ctx.consulted.add(h.module.rel)
                        okf = c
        need("per-rank formats", okf, "an uncompressed rank comes back compressed")
        # shape provenance
        sh = kw.get("shape")
        if sh is None or (isinstance(sh, ast.Constant) and sh.value is None):
            okshape = False
        else:
            okshape = _derives_from(ctx, f, sh, "self.getShape(authoritative=True)") or \
                (name == "unflattenRanks" and
                 _derives_from(ctx, f, sh, "self.getShape()"))
        if okshape:
            ctx.ok("C14.R1", f, call, "shape derived from the operand's shape",
                   text_="Tensor.%s shape provenance" % name)
        else:
            ctx.bad("C14.R1", f, call, "Tensor.%s passes `%s` as the result's "
                    "shape, which is not derived from the operand's "
                    "authoritative shape: an operand with a declared shape "
                    "yields a result whose shape is merely estimated from its "
                    "occupancy" % (name, text(sh) if sh is not None else "nothing"),
                    text_="Tensor.%s shape provenance" % name)
        # rank ids
        rid = kw.get("rank_ids")
        if rid is not None and (_derives_from(ctx, f, rid, "self.getRankIds()")
                                or (name == "swizzleRanks" and text(rid) == f.params[1])):
            ctx.ok("C14.R1", f, call, "rank ids derived from the operand's",
                   text_="Tensor.%s rank ids" % name)
        else:
            ctx.bad("C14.R1", f, call, "Tensor.%s's result rank ids are not "
                    "derived from the operand's rank ids" % name,
                    text_="Tensor.%s rank ids" % name)


def _format_loops(ctx, f, R):
    """Loops of `f` over R.getRankIds() that set the format of every rank
    of R to the operand's format of that rank (self.getFormat(..)) or to the
    compressed default 'C', at least one alternative being the operand's."""
    out = []
    for lp in f.own_nodes():
        if not (isinstance(lp, ast.For) and
                text(lp.iter).replace(" ", "") == "%s.getRankIds()" % R):
            continue
        rid = text(lp.target)
        sets = [c for c in _walk(lp.body) if isinstance(c, ast.Call)
                and text(c.func) == "%s.setFormat" % R]
        vals = []
        good = bool(sets)
        for c in sets:
            if len(c.args) != 2 or text(c.args[0]) != rid:
                good = False
                continue
            a = c.args[1]
            if isinstance(a, ast.Name):
                facts, is_param = ctx.ty.facts_at(f, a.id, a)
                if is_param or not facts or any(fa.kind != "expr" or fa.path for fa in facts):
                    good = False
                    continue
                vals += [fa.value for fa in facts]
            else:
                vals.append(a)
        for v in vals:
            if not (text(v).replace(" ", "").startswith("self.getFormat(") or
                    (isinstance(v, ast.Constant) and v.value == "C")):
                good = False
        if good and any(text(v).replace(" ", "").startswith("self.getFormat(") for v in vals):
            out.append(lp)
    return out


def _renamings(ctx):
    f = ctx.method("Tensor", "_splitGeneric")
    src = "\n".join(text(s) for s in f.body).replace(" ", "")
    e1 = pat.msearch(src, "$I=$R[$D]")
    e1 = e1 and pat.msearch(src, "$R[$D]=f'{$I}.1'", e1)
    if e1 and pat.msearch(src, "$R.insert($D+1,f'{$I}.0')", e1):
        ctx.ok("C14.R1", f, f.node, "split renames X -> X.1, X.0",
               text_="_splitGeneric renaming")
    else:
        ctx.bad("C14.R1", f, f.node, "a split no longer renames rank X to X.1 "
                "(upper) and X.0 (lower, inserted right after)",
                text_="_splitGeneric renaming")
    if e1 and pat.msearch(src, "$S.insert($D+1,$S[$D])", {"D": e1["D"]}):
        ctx.ok("C14.R1", f, f.node, "split duplicates the split rank's shape",
               text_="_splitGeneric shape")
    else:
        ctx.bad("C14.R1", f, f.node, "a split no longer inserts the split "
                "rank's shape for the new lower rank", text_="_splitGeneric shape")
    f = ctx.method("Tensor", "swapRanks")
    src = "\n".join(text(s) for s in f.body).replace(" ", "")
    e0 = pat.msearch(src, "$R=copy.deepcopy(self.getRankIds())")
    e1 = e0 and pat.msearch(src, "$I=$R[depth]", e0)
    if (e1 and pat.msearch(src, "$R[depth]=$R[depth+1]", e1) and
            pat.msearch(src, "$R[depth+1]=$I", e1)) or \
            (e0 and pat.msearch(src, "$R[depth],$R[depth+1]=($R[depth+1],$R[depth])", e0)):
        ctx.ok("C14.R1", f, f.node, "swap exchanges the two adjacent rank ids",
               text_="swapRanks renaming")
    else:
        ctx.bad("C14.R1", f, f.node, "swapRanks no longer exchanges the ids of "
                "ranks depth and depth+1", text_="swapRanks renaming")


# ---------------------------------------------------------------------------
LAZY = {
    # builder key: (first operand expr, active range expr(s), default expr or None)
    "core/iterators.py:__and__": ("self", ["self.getActive()"], None),
    "core/iterators.py:__or__": ("self", ["self.getActive()"],
                                 "('',self.getDefault(),other.getDefault())"),
    "core/iterators.py:__xor__": ("self", ["self.getActive()"],
                                  "('',self.getDefault(),other.getDefault())"),
    "core/iterators.py:__sub__": ("self", ["self.getActive()"], "self.getDefault()"),
    "core/iterators.py:intersection": ("args[0]", ["args[0].getActive()"], None),
    "core/iterators.py:union": ("args[0]", ["args[0].getActive()"],
                                "tuple(['']+[$A.getDefault()for$Ainargs])"),
    "core/iterators.py:coiterRangeShape": ("fibers[0]", ["(start,end)"], None),
    "core/iterators.py:coiterRangeShapeRef": ("fibers[0]", ["(start,end)"], None),
    "core/fiber.py:Fiber.prune": ("self", ["self.getActive()"], "self.getDefault()"),
}


def lazy_builders(ctx):
    n = 0
    for key, (first, actives, default) in LAZY.items():
        f = ctx.func(key)
        calls = [c for c in pat.calls(f, attr="fromIterator")]
        ctx.require(len(calls) == 1, "C14.R2: %s has %d fromIterator calls"
                    % (key, len(calls)))
        c = calls[0]
        n += 1
        st = enclosing_stmt(c)
        R = text(st.targets[0]) if isinstance(st, ast.Assign) else None
        ctx.require(R, "C14.R2: result of fromIterator in %s is not bound" % key)
        ar = pat.kwarg(c, "active_range")
        art = text(ar).replace(" ", "") if ar is not None else None
        if art in actives:
            ctx.ok("C14.R2", f, c, "active range = %s" % art)
        else:
            ctx.bad("C14.R2", f, c, "%s builds its lazy result with active "
                    "range `%s`; the operation defines it as %s"
                    % (f.name, art, " / ".join(actives)),
                    text_="%s active range" % f.name)
        ids = [x for x in pat.calls(f, attr="setId")
               if text(x.func.value).replace(" ", "") == "%s.getRankAttrs()" % R]
        want = "%s.getRankAttrs().getId()" % first
        if ids and ids[0].args and text(ids[0].args[0]).replace(" ", "") == want:
            ctx.ok("C14.R2", f, ids[0], "rank id of the first operand")
        else:
            ctx.bad("C14.R2", f, c, "%s's lazy result does not carry the rank "
                    "id of its first operand (`%s`)" % (f.name, want),
                    text_="%s rank id" % f.name)
        if default is not None:
            ds = [x for x in pat.calls(f, attr="_setDefault")
                  if text(x.func.value) == R]
            okd_ = ds and ds[0].args and pat.msearch(
                text(ds[0].args[0]).replace(" ", "").replace('"', "'"),
                default, full=True) is not None
            if ds and ds[0].args and not okd_ and "$A" in default:
                # the same sequence, spelled differently
                want_seg = pat.seq_segments(ast.parse(
                    default.replace("$A", "A_").replace("for", " for ")
                    .replace("in", " in "), mode="eval").body)
                okd_ = want_seg is not None and \
                    pat.seq_segments(ds[0].args[0]) == want_seg
            if okd_:
                ctx.ok("C14.R2", f, ds[0], "default = %s" % default)
            else:
                ctx.bad("C14.R2", f, c, "%s's lazy result gets default `%s`; "
                        "it must be %s" % (f.name, text(ds[0].args[0]) if ds and
                                           ds[0].args else "none", default),
                        text_="%s default" % f.name)
    # project
    f = ctx.method("Fiber", "project")
    calls = [c for c in pat.calls(f, attr="fromIterator")
             if "project_iterator" in text(c)]
    ctx.require(len(calls) == 1, "C14.R2: project's fromIterator call not found")
    c = calls[0]
    n += 1
    st = enclosing_stmt(c)
    R = text(st.targets[0]) if isinstance(st, ast.Assign) else "result"
    ar = pat.kwarg(c, "active_range")
    e0 = pat.msearch(text(ar), "($L,$H)", full=True) if ar is not None else None
    if e0 is not None:
        src = "\n".join(text(s) for s in f.body).replace(" ", "")
        iv = pat.msearch(src, "$L,$H=interval", e0) is not None or \
            pat.msearch(src, "($L,$H)=interval", e0) is not None
        e1 = pat.msearch(src, "$S=trans_fn(self.getActive()[0])", e0)
        e1 = e1 and pat.msearch(src, "$E=trans_fn(Fiber._transCoord("
                                "self.getActive()[1],lambdac:c-1))", e1)
        if not e1:
            # the getter's result held in a local
            e1 = pat.msearch(src, "$A=self.getActive()", e0)
            e1 = e1 and pat.msearch(src, "$S=trans_fn($A[0])", e1)
            e1 = e1 and pat.msearch(src, "$E=trans_fn(Fiber._transCoord("
                                    "$A[1],lambdac:c-1))", e1)
        tr = bool(e1) and pat.msearch(src, "$L=min($S,$E)", e1) is not None and \
            pat.msearch(src, "$H=Fiber._transCoord(max($S,$E),lambdac:c+1)", e1) is not None
        if iv and tr:
            ctx.ok("C14.R2", f, c, "active range = requested interval, else the "
                   "transformed range (min/max, +1 on the open end)")
        else:
            ctx.bad("C14.R2", f, c, "project's active range is no longer the "
                    "requested interval or [min(t(a0), t(a1-1)), max(...)+1)",
                    text_="project active range")
    else:
        ctx.bad("C14.R2", f, c, "project builds its result with active range "
                "`%s`" % text(ar), text_="project active range")
    ds = [x for x in pat.calls(f, attr="_setDefault") if text(x.func.value) == R]
    if ds and ds[0].args and text(ds[0].args[0]).replace(" ", "") == "self.getDefault()":
        ctx.ok("C14.R2", f, ds[0], "default of the projected fiber")
    else:
        ctx.bad("C14.R2", f, c, "project's result does not carry the fiber's "
                "default", text_="project default")
    ids = [x for x in pat.calls(f, attr="setId")
           if text(x.func.value).replace(" ", "") == "%s.getRankAttrs()" % R]
    if ids and ids[0].args and text(ids[0].args[0]) == "rank_id" and any(
            (text(t).replace(" ", ""), pol) == ("rank_idisnotNone", True)
            for t, pol in guards(enclosing_stmt(ids[0]))):
        ctx.ok("C14.R2", f, ids[0], "requested rank id applied when given")
    else:
        ctx.bad("C14.R2", f, c, "project no longer applies the requested "
                "rank_id to its result", text_="project rank id")
    ctx.floor("C14.R2", n, 10, "lazy-result builders")


def owner_first(ctx):
    for name, query in (("getRankAttrs", "getAttrs"), ("getDefault", "getDefault"),
                        ("getShape", "getShape"), ("getRankIds", "getRankIds")):
        f = ctx.method("Fiber", name)
        g = cfg_of(f, assert_edges=False)
        owned = pat.A("is not", "self.getOwner()", "None")
        unowned = pat.A("is", "self.getOwner()", "None")

        def gatoms(st):
            out = set()
            for t, pol in \
                    [(t, pol) for t, pol in atomic_guards(st)]:
                a = pat.catom(ctx, f, t, pol)
                if a == pat.T("self.getOwner()"):
                    a = owned
                elif a == pat.T("self.getOwner()", False):
                    a = unowned
                out.add(a)
            return out
        uses = [x for x in f.own_nodes() if isinstance(x, ast.Call)
                and isinstance(x.func, ast.Attribute) and x.func.attr == query
                and pat.inline(ctx, f, x.func.value).replace(" ", "") == "self.getOwner()"
                and owned in gatoms(enclosing_stmt(x))]
        if not uses:
            ctx.bad("C14.R3", f, f.node, "Fiber.%s no longer asks the owning "
                    "rank first: a fiber that joined a tensor keeps reporting "
                    "its private attributes" % name, text_="Fiber.%s owner first" % name)
            continue
        local = [n for n in f.own_nodes() if isinstance(n, ast.Call) and
                 "getRankAttrs()" in text(n) and name != "getRankAttrs"] + \
                [n for n in f.own_nodes() if isinstance(n, ast.Attribute)
                 and n.attr == "_rank_attrs"]
        if all(unowned in gatoms(enclosing_stmt(x)) for x in local):
            ctx.ok("C14.R3", f, uses[0], "owner consulted before the fiber's "
                   "own attributes", text_="Fiber.%s owner first" % name)
        else:
            ctx.bad("C14.R3", f, uses[0], "Fiber.%s reads its private rank "
                    "attributes on a path where it has an owner" % name,
                    text_="Fiber.%s owner first" % name)
    f = ctx.method("Rank", "append")
    g = cfg_of(f, assert_edges=False)
    own = [enclosing_stmt(c) for c in pat.calls(f, attr="setOwner")
           if c.args and text(c.args[0]) == "self"]
    est = [enclosing_stmt(c) for c in pat.calls(f, attr="getShape")
           if "all_ranks=False" in text(c)]
    if own and est and all(g.can_reach(e, own[0]) and not g.can_reach(own[0], e)
                           for e in est):
        ctx.ok("C14.R3", f, own[0], "shape is estimated while the fiber is "
               "still unowned, then the owner is set")
    else:
        ctx.bad("C14.R3", f, f.node, "Rank.append no longer estimates the "
                "fiber's shape before making itself the owner",
                text_="Rank.append estimate-then-own")


def authoritative(ctx):
    # read under the case `authoritative and the shape is an estimate`
    # (sa/symcase.py): whatever all_ranks is, the answer is None before
    # anything else is computed -- one shared guard or one per path
    from .. import symcase
    f = ctx.method("Rank", "getShape")

    def decide(t):
        tt = text(t).replace(" ", "")
        if tt in ("authoritative", "self._attrs.getEstimatedShape()"):
            return True
        return None
    outs = symcase.Evaluator(ctx, decide).run(f)
    good = bool(outs) and all(
        o.returned and not o.opaque and not o.stores and
        isinstance(o.ret_stmt, ast.Return) and
        (o.ret is None or text(o.ret) == "None") for o in outs)
    if good:
        for o in outs:
            ctx.ok("C14.R4", f, o.ret_stmt, "estimated shape is not authoritative")
    else:
        bad = [o for o in outs if not (o.returned and not o.opaque and
                                       (o.ret is None or text(o.ret) == "None"))]
        ctx.bad("C14.R4", f, f.node, "Rank.getShape(authoritative=True) no "
                "longer returns None for an estimated shape on both the "
                "single-rank and the all-ranks path (%d of %d ways through it "
                "give something else)" % (len(bad), len(outs)),
                text_="Rank.getShape authoritative")


# -- R5: the active range swizzleRanks re-computes covers the stored coords ----

def _norm(ctx, f, e, var):
    import re
    t = pat.inline(ctx, f, e)
    return re.sub(r"\b%s\b" % re.escape(var), "$", t).replace(" ", "")


def _comp_facts(ctx, f, e, depth=0):
    """For an iterable expression built by (nested) filtered comprehensions:
    (element text, [(op, left, right)] facts every element satisfies), the
    comprehension variable written `$`.  None when `e` is not of that form."""
    if depth > 4:
        return None
    if isinstance(e, ast.Name):
        v = pat.single_def(ctx, f, e)
        return _comp_facts(ctx, f, v, depth + 1) if v is not None else None
    if isinstance(e, ast.Call) and text(e.func) in ("list", "tuple", "sorted", "set") \
            and len(e.args) == 1:
        return _comp_facts(ctx, f, e.args[0], depth + 1)
    if not isinstance(e, (ast.ListComp, ast.GeneratorExp, ast.SetComp)) or \
            len(e.generators) != 1:
        return None
    g = e.generators[0]
    if isinstance(g.target, ast.Tuple) and g.target.elts and \
            all(isinstance(x, ast.Name) for x in g.target.elts):
        # `for lo, hi in ranges`: lo is item[0], hi is item[1]
        import re as _re
        comps = {x.id: "$[%d]" % k for k, x in enumerate(g.target.elts)}

        def sub_t(x):
            x = x.replace(" ", "")
            for nm, rep in comps.items():
                x = _re.sub(r"(?<![\w.])%s\b" % _re.escape(nm), lambda m: rep, x)
            return x
        facts = []
        for cond in g.ifs:
            for t, pol in pat.conjuncts(cond):
                q = pat.cmp_parts(ctx, f, t, pol)
                if q:
                    facts.append((q[0], sub_t(q[1]), sub_t(q[2])))
        return sub_t(pat.inline(ctx, f, e.elt)), facts
    if not isinstance(g.target, ast.Name):
        return None
    var = g.target.id
    facts = []
    for cond in g.ifs:
        for t, pol in pat.conjuncts(cond):
            p = pat.cmp_raw(t, pol)
            if p:
                import re
                sub = lambda x: re.sub(r"\b%s\b" % re.escape(var), "$", x).replace(" ", "")
                # inline temporaries on both sides
                tt = t.operand if isinstance(t, ast.UnaryOp) else t
                q = pat.cmp_parts(ctx, f, t, pol)
                facts.append((q[0], sub(q[1]), sub(q[2])))
    inner = _comp_facts(ctx, f, g.iter, depth + 1)
    elt = _norm(ctx, f, e.elt, var)
    if inner is not None:
        ielt, ifacts = inner
        # elements of the inner iterable are `ielt`; only a bare pass-through
        # lets its facts speak about our variable
        if ielt == "$":
            facts = facts + ifacts
    return elt, facts


def swizzle_active(ctx):
    f = ctx.method("Tensor", "swizzleRanks")
    calls = [c for c in pat.calls(f, attr="setActive")]
    ctx.require(calls, "C14.R5: swizzleRanks no longer resets active ranges "
                "(setActive call vanished)")
    for c in calls:
        recv = pat.inline(ctx, f, c.func.value).replace(" ", "")
        arg = c.args[0] if c.args else None
        if isinstance(arg, ast.Name):
            arg = pat.single_def(ctx, f, arg)
        if not (isinstance(arg, ast.Tuple) and len(arg.elts) == 2):
            raise AnalysisError("C14.R5: cannot read the (start, end) pair of "
                                "`%s`" % text(c))
        res = {}
        for which, e, idx, want in (
                ("start", arg.elts[0], "$[0]", ("<=", "$[0]", "%s.coords[0]" % recv)),
                ("end", arg.elts[1], "$[1]", ("<", "%s.coords[-1]" % recv, "$[1]"))):
            v = e
            if isinstance(v, ast.Name):
                v = pat.single_def(ctx, f, v)
            if not (isinstance(v, ast.Call) and text(v.func) in ("min", "max")
                    and len(v.args) == 1):
                raise AnalysisError("C14.R5: the %s of the re-computed active "
                                    "range is not min/max over the collected "
                                    "ranges: `%s`" % (which, text(e)))
            cf = _comp_facts(ctx, f, v.args[0])
            if cf is None:
                raise AnalysisError("C14.R5: cannot read the candidate ranges "
                                    "of `%s`" % text(v))
            elt, facts = cf
            strict = ("<", want[1], want[2])
            ok = elt == idx and (want in facts or strict in facts)
            res[which] = (ok, elt, facts)
            if ok:
                ctx.ok("C14.R5", f, c, "%s: every candidate satisfies %s %s %s"
                       % ((which,) + want), text_="swizzle active %s" % which)
            else:
                ctx.bad("C14.R5", f, c,
                        "swizzleRanks sets the active range %s of `%s` from "
                        "candidates `%s` known only to satisfy %s; nothing "
                        "makes it %s: stored coordinates can fall outside the "
                        "active range (iterActive drops them)"
                        % (which, recv, elt, facts or "nothing",
                           "<= the first stored coordinate" if which == "start"
                           else "> the last stored coordinate"),
                        text_="swizzle active %s" % which)


# -- R1: pair-style shapes nest in coordinate order ---------------------------

def pair_shape_order(ctx):
    """A pair-style flatten turns coordinates (c0, c1, ..., cn) into
    (c0, (c1, (... (cn-1, cn)))).  The shape is assembled by folding
    `acc = (val, acc)` over the leading shapes: prepending preserves the
    order only if the leading shapes are visited last-to-first."""
    f = ctx.method("Tensor", "_flattenRankIdsShape")
    folds = []
    for lp in f.own_nodes():
        if not isinstance(lp, ast.For) or not isinstance(lp.target, ast.Name):
            continue
        for st in lp.body:
            if isinstance(st, ast.Assign) and len(st.targets) == 1 and \
                    isinstance(st.targets[0], ast.Name) and \
                    isinstance(st.value, ast.Tuple) and len(st.value.elts) == 2:
                acc = st.targets[0].id
                a, b = st.value.elts
                if isinstance(a, ast.Name) and a.id == lp.target.id and \
                        isinstance(b, ast.Name) and b.id == acc:
                    folds.append((lp, st, "prepend"))
                elif isinstance(b, ast.Name) and b.id == lp.target.id and \
                        isinstance(a, ast.Name) and a.id == acc:
                    folds.append((lp, st, "append"))
    ctx.require(folds, "C14.R1: pair-style shape fold of _flattenRankIdsShape not found")
    for lp, st, how in folds:
        it = lp.iter
        desc = (isinstance(it, ast.Call) and text(it.func) == "reversed") or (
            isinstance(it, ast.Subscript) and isinstance(it.slice, ast.Slice)
            and it.slice.step is not None and text(it.slice.step).replace(" ", "") == "-1")
        if how == "prepend" and desc:
            ctx.ok("C14.R1", f, lp, "pair-style shape nests the leading shapes "
                   "in coordinate order (prepend over the reversed prefix)",
                   text_="pair shape fold")
        else:
            ctx.bad("C14.R1", f, lp, "the pair-style shape is folded with `%s` "
                    "over `%s`: the leading shapes come out in a different order "
                    "than the coordinates (c0, (c1, (...))), so stored "
                    "coordinates lie outside the reported shape when three or "
                    "more ranks are flattened" % (text(st), text(it)),
                    text_="pair shape fold")


# -- R1: the leaf default handed to a constructor is installed -------------------

def leaf_default_condition(ctx):
    """Tensor.setRankInfo installs the caller's leaf default on the last rank.
    The only admissible reason to skip that is that the default equals the
    built-in default 0 (`default != 0`); a truthiness test also skips None,
    '', () and other falsy defaults, which then silently become 0."""
    f = ctx.method("Tensor", "setRankInfo")
    dp = "default"
    ctx.require(dp in f.all_param_names(), "C14.R1: setRankInfo lost its default parameter")
    sets = [c for c in pat.calls(f, attr="setDefault")
            if c.args and text(c.args[0]) == dp]
    ctx.require(sets, "C14.R1: setRankInfo no longer installs the leaf default")
    for c in sets:
        gs = {pat.catom(ctx, f, t, pol, False)
              for t, pol in atomic_guards(enclosing_stmt(c), asserts=False)}
        if gs <= {pat.A("!=", dp, "0")}:
            ctx.ok("C14.R1", f, c, "leaf default installed unless it equals the "
                   "built-in default 0", text_="setRankInfo leaf default")
        else:
            ctx.bad("C14.R1", f, c, "the caller's leaf default is installed only "
                    "when %s: a default that fails this test without being 0 "
                    "(None, '', ()) is silently replaced by 0, so the tensor "
                    "does not report the default it was built with"
                    % sorted(map(str, gs - {pat.A("!=", dp, "0")})),
                    text_="setRankInfo leaf default")


# -- R1: the rank shape covers every fiber that joins ---------------------------------

def rank_shape_covers(ctx):
    """Tensor._addFiber reconciles a joining fiber's declared shape with the
    rank's: when both exist the rank must end up with the larger one (the
    fibers of a rank may declare different shapes), otherwise coordinates
    of the wider fiber lie outside the reported shape."""
    f = ctx.method("Tensor", "_addFiber")
    sets = [c for c in pat.calls(f, attr="setShape") if c.args]
    ctx.require(sets, "C14.R1: _addFiber no longer sets rank shapes")
    grow = None
    for c in sets:
        a = c.args[0]
        if isinstance(a, ast.Call) and text(a.func) == "max" and len(a.args) == 2:
            srcs = {pat.inline(ctx, f, x).replace(" ", "") for x in a.args}
            if any(s_.endswith(".getShape(all_ranks=False)") or "getShape" in s_ for s_ in srcs):
                grow = c
    if grow is not None:
        ctx.ok("C14.R1", f, grow, "rank shape grows to the larger of its own and "
               "the joining fiber's", text_="_addFiber shape reconciliation")
    else:
        ctx.bad("C14.R1", f, sets[0], "Tensor._addFiber never widens a rank's "
                "shape to `max(fiber shape, rank shape)`: when fibers of one "
                "rank declare different shapes the rank keeps the first one "
                "and coordinates of a wider fiber lie outside the reported "
                "shape", text_="_addFiber shape reconciliation")
